------------------------------ MODULE DagTrace ------------------------------
\* Trace validation for the DAG container (AssociationDAGlobalGraphObserver /
\* DAGlobalGraph): every recorded event is a step of Dag.tla, the state read
\* back equals the model's, every answer equals the definition.
\* State: n node ids, e <<id,top,bottom>>, o / i node table, eo / oe observer maps.
EXTENDS Dag, TraceLib, Integers

S == Ev.s
\* several containers in one scenario (copies) - same scheme as TreeTrace.tla
VARIABLES saved, cur
Rec == [nodes |-> nodes, edges |-> edges, nextN |-> nextN, nextE |-> nextE, eObj |-> eObj, root |-> root,
        acyclic |-> acyclic, cacheV |-> cacheV, cacheR |-> cacheR]
NoDup(s) == Cardinality(SeqToSet(s)) = Len(s)
Keys(ps) == {ps[i][1] : i \in DOMAIN ps}
Val(ps, k) == ps[CHOOSE i \in DOMAIN ps : ps[i][1] = k][2]

ProjRec(st, P) ==
  /\ st.root = P.root                                           \* getRoot(): a refused rootAt must not move it
  /\ NoDup(P.n) /\ st.nodes = SeqToSet(P.n)
  /\ Keys(P.e) = DOMAIN st.edges /\ Len(P.e) = Cardinality(DOMAIN st.edges)
  /\ \A i \in DOMAIN P.e : LET x == P.e[i] IN st.edges[x[1]] = <<x[2], x[3]>>
  /\ Keys(P.o) = st.nodes /\ Len(P.o) = Cardinality(st.nodes)
  /\ Keys(P.i) = st.nodes /\ Len(P.i) = Cardinality(st.nodes)
  /\ \A n \in st.nodes : /\ SeqToSet(Val(P.o, n)) = OutN(st.edges, TRUE, n)
                          /\ SeqToSet(Val(P.i, n)) = InN(st.edges, TRUE, n)
  /\ Keys(P.eo) = DOMAIN st.eObj /\ Len(P.eo) = Cardinality(DOMAIN st.eObj)
  /\ \A e \in DOMAIN st.eObj : Val(P.eo, e) = st.eObj[e]
  /\ Keys(P.oe) = {st.eObj[e] : e \in DOMAIN st.eObj} /\ Len(P.oe) = Len(P.eo)
  /\ \A e \in DOMAIN st.eObj : Val(P.oe, st.eObj[e]) = e
ProjOK == ProjRec([nodes |-> nodes', edges |-> edges', eObj |-> eObj', root |-> root'], S)

Out == res' = Ev.r

TReset == /\ IsEvent("Reset")
          /\ nodes' = {} /\ edges' = <<>> /\ nextN' = 0 /\ nextE' = 0 /\ eObj' = <<>> /\ root' = 0
          /\ acyclic' = TRUE /\ cacheV' = FALSE /\ cacheR' = FALSE /\ res' = "ok"
          /\ saved' = <<>> /\ cur' = 0

Load(st) == /\ nodes' = st.nodes /\ edges' = st.edges /\ nextN' = st.nextN /\ nextE' = st.nextE /\ eObj' = st.eObj /\ root' = st.root
            /\ acyclic' = st.acyclic /\ cacheV' = st.cacheV /\ cacheR' = st.cacheR /\ res' = "ok"
TSwitch == /\ IsEvent("Switch") /\ Ev.to \in DOMAIN saved /\ Ev.to # cur
           /\ saved' = [o \in (DOMAIN saved \cup {cur}) \ {Ev.to} |-> IF o = cur THEN Rec ELSE saved[o]]
           /\ cur' = Ev.to /\ Load(saved[Ev.to])
TCopy == /\ IsEvent("Copy") /\ Ev.src = cur /\ Ev.dst # cur
         /\ (Ev.how = "assign") = (Ev.dst \in DOMAIN saved)
         /\ saved' = [o \in DOMAIN saved \cup {Ev.dst} |-> IF o = Ev.dst THEN [Rec EXCEPT !.eObj = <<>>] ELSE saved[o]]
         /\ ProjRec(saved'[Ev.dst], S)
         /\ UNCHANGED <<vars, cur>>
TWatch == /\ IsEvent("Watch") /\ Ev.obj \in DOMAIN saved
          /\ ProjRec(saved[Ev.obj], S)
          /\ UNCHANGED <<vars, saved, cur>>

TCreateNode   == IsEvent("CreateNode") /\ CreateNode /\ Out /\ Ev.id = nextN /\ ProjOK
TAddSon       == IsEvent("AddSon") /\ AddSon(Ev.a[1], Ev.a[2], Ev.a[3]) /\ Out /\ ProjOK
TAddFather    == IsEvent("AddFather") /\ AddFather(Ev.a[1], Ev.a[2], Ev.a[3]) /\ Out /\ ProjOK
TLink         == IsEvent("Link") /\ Link(Ev.a[1], Ev.a[2], Ev.a[3], "Link") /\ Out /\ ProjOK
TRemoveSon    == IsEvent("RemoveSon") /\ RemoveSon(Ev.a[1], Ev.a[2]) /\ Out /\ ProjOK
TRemoveFather == IsEvent("RemoveFather") /\ RemoveFather(Ev.a[1], Ev.a[2]) /\ Out /\ ProjOK
TUnlink       == IsEvent("Unlink") /\ Unlink(Ev.a[1], Ev.a[2], "Unlink") /\ Out /\ ProjOK
TDeleteNode   == IsEvent("DeleteNode") /\ DeleteNode(Ev.a[1]) /\ Out /\ ProjOK

\* rootAt: the orientation read back is adopted and must meet the definition
LoggedEdges == [id \in Keys(S.e) |-> LET x == S.e[CHOOSE i \in DOMAIN S.e : S.e[i][1] = id] IN <<x[2], x[3]>>]
TRootAt == /\ IsEvent("RootAt")
           /\ IF Ev.r = "ok" THEN RootAtTo(Ev.a[1], LoggedEdges) ELSE (Ev.a[1] \notin nodes /\ Raise /\ Out)
           /\ ProjOK

\* the answers are adopted; ValidExact / RootedExact judge them
TQValid  == /\ IsEvent("QValid") /\ Ev.r \in {"T", "F"} /\ res' = Ev.r
            /\ cacheV' = Valid /\ UNCHANGED <<gvars, acyclic, cacheR>> /\ ProjOK
TQRooted == /\ IsEvent("QRooted") /\ Ev.r \in {"RT", "RF"} /\ res' = Ev.r
            /\ cacheR' = (cacheR \/ Cardinality(NoFather) = 1) /\ UNCHANGED <<gvars, acyclic, cacheV>> /\ ProjOK

TQFathers ==
  /\ IsEvent("QFathers") /\ QStruct /\ ProjOK
  /\ \A i \in DOMAIN Ev.rows :
       LET x == Ev.rows[i]  n == x[1] IN
         /\ n \in nodes
         /\ SeqToSet(x[2]) = Fathers(edges, n) /\ x[3] = Cardinality(Fathers(edges, n))
         /\ x[4] = HasFather(edges, n)
         /\ SeqToSet(x[5]) = Sons(edges, n) /\ x[6] = Cardinality(Sons(edges, n))
\* leaves under a node: asserted on acyclic graphs (the walk need not end otherwise)
TQLeaves ==
  /\ IsEvent("QLeaves") /\ acyclic /\ QStruct /\ ProjOK
  /\ \A i \in DOMAIN Ev.rows :
       LET x == Ev.rows[i] IN x[1] \in nodes /\ SeqToSet(x[2]) = LeavesUnder(edges, x[1])
\* getBelowNodes / getBelowEdges: refused when the graph is not a DAG
TQBelow ==
  /\ IsEvent("QBelow") /\ Len(Ev.rows) = 1
  /\ LET x == Ev.rows[1] IN
       /\ QBelow(x[1]) /\ res' = x[2] /\ res' = x[5]
       /\ acyclic => /\ SeqToSet(x[3]) = Desc(edges, x[1])
                     /\ SeqToSet(x[4]) = SubEdges(edges, x[1])
  /\ ProjOK

\* a copy of the observer = a second view on the same graph
TQView ==
  /\ IsEvent("QView") /\ QStruct /\ ProjOK
  /\ (Ev.v \in {"T", "F"} /\ nodes # {}) => (Ev.v = "T") = acyclic
  /\ \A i \in DOMAIN Ev.eo : Ev.eo[i][1] \in DOMAIN eObj /\ eObj[Ev.eo[i][1]] = Ev.eo[i][2]
  /\ Ev.fresh => Keys(Ev.eo) = DOMAIN eObj
  /\ LET K == SeqToSet(Ev.known) IN            \* nodes the view has an object for
       /\ K \subseteq nodes /\ (Ev.fresh => K = nodes)
       /\ {Ev.rows[i][1] : i \in DOMAIN Ev.rows} = K
       /\ \A i \in DOMAIN Ev.rows :
            LET x == Ev.rows[i] IN /\ SeqToSet(x[2]) = Sons(edges, x[1]) \cap K
                                   /\ SeqToSet(x[3]) = Fathers(edges, x[1]) \cap K

Single == TQView \/ TRootAt \/ TCreateNode \/ TAddSon \/ TAddFather \/ TLink \/ TRemoveSon \/ TRemoveFather \/ TUnlink
          \/ TDeleteNode \/ TQValid \/ TQRooted \/ TQFathers \/ TQLeaves \/ TQBelow
TraceNext == (Single /\ UNCHANGED <<saved, cur>>) \/ TReset \/ TSwitch \/ TCopy \/ TWatch
TraceInit == Init /\ l = 1 /\ saved = <<>> /\ cur = 0
TraceSpec == TraceInit /\ [][TraceNext]_<<vars, l, saved, cur>>
=============================================================================
