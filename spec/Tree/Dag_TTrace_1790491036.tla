---- MODULE Dag_TTrace_1790491036 ----
EXTENDS Sequences, TLCExt, Toolbox, Naturals, TLC, Dag

_expression ==
    LET Dag_TEExpression == INSTANCE Dag_TEExpression
    IN Dag_TEExpression!expression
----

_trace ==
    LET Dag_TETrace == INSTANCE Dag_TETrace
    IN Dag_TETrace!trace
----

_inv ==
    ~(
        TLCGet("level") = Len(_TETrace)
        /\
        res = ("ok")
        /\
        cacheV = (FALSE)
        /\
        nodes = ({0, 1})
        /\
        cacheR = (TRUE)
        /\
        nextN = (2)
        /\
        edges = (<<>>)
        /\
        acyclic = (TRUE)
        /\
        eObj = (<<>>)
        /\
        nextE = (1)
    )
----

_init ==
    /\ acyclic = _TETrace[1].acyclic
    /\ nodes = _TETrace[1].nodes
    /\ res = _TETrace[1].res
    /\ eObj = _TETrace[1].eObj
    /\ edges = _TETrace[1].edges
    /\ cacheR = _TETrace[1].cacheR
    /\ cacheV = _TETrace[1].cacheV
    /\ nextE = _TETrace[1].nextE
    /\ nextN = _TETrace[1].nextN
----

_next ==
    /\ \E i,j \in DOMAIN _TETrace:
        /\ \/ /\ j = i + 1
              /\ i = TLCGet("level")
        /\ acyclic  = _TETrace[i].acyclic
        /\ acyclic' = _TETrace[j].acyclic
        /\ nodes  = _TETrace[i].nodes
        /\ nodes' = _TETrace[j].nodes
        /\ res  = _TETrace[i].res
        /\ res' = _TETrace[j].res
        /\ eObj  = _TETrace[i].eObj
        /\ eObj' = _TETrace[j].eObj
        /\ edges  = _TETrace[i].edges
        /\ edges' = _TETrace[j].edges
        /\ cacheR  = _TETrace[i].cacheR
        /\ cacheR' = _TETrace[j].cacheR
        /\ cacheV  = _TETrace[i].cacheV
        /\ cacheV' = _TETrace[j].cacheV
        /\ nextE  = _TETrace[i].nextE
        /\ nextE' = _TETrace[j].nextE
        /\ nextN  = _TETrace[i].nextN
        /\ nextN' = _TETrace[j].nextN

\* Uncomment the ASSUME below to write the states of the error trace
\* to the given file in Json format. Note that you can pass any tuple
\* to `JsonSerialize`. For example, a sub-sequence of _TETrace.
    \* ASSUME
    \*     LET J == INSTANCE Json
    \*         IN J!JsonSerialize("Dag_TTrace_1790491036.json", _TETrace)

=============================================================================

 Note that you can extract this module `Dag_TEExpression`
  to a dedicated file to reuse `expression` (the module in the 
  dedicated `Dag_TEExpression.tla` file takes precedence 
  over the module `Dag_TEExpression` below).

---- MODULE Dag_TEExpression ----
EXTENDS Sequences, TLCExt, Toolbox, Naturals, TLC, Dag

expression == 
    [
        \* To hide variables of the `Dag` spec from the error trace,
        \* remove the variables below.  The trace will be written in the order
        \* of the fields of this record.
        acyclic |-> acyclic
        ,nodes |-> nodes
        ,res |-> res
        ,eObj |-> eObj
        ,edges |-> edges
        ,cacheR |-> cacheR
        ,cacheV |-> cacheV
        ,nextE |-> nextE
        ,nextN |-> nextN
        
        \* Put additional constant-, state-, and action-level expressions here:
        \* ,_stateNumber |-> _TEPosition
        \* ,_acyclicUnchanged |-> acyclic = acyclic'
        
        \* Format the `acyclic` variable as Json value.
        \* ,_acyclicJson |->
        \*     LET J == INSTANCE Json
        \*     IN J!ToJson(acyclic)
        
        \* Lastly, you may build expressions over arbitrary sets of states by
        \* leveraging the _TETrace operator.  For example, this is how to
        \* count the number of times a spec variable changed up to the current
        \* state in the trace.
        \* ,_acyclicModCount |->
        \*     LET F[s \in DOMAIN _TETrace] ==
        \*         IF s = 1 THEN 0
        \*         ELSE IF _TETrace[s].acyclic # _TETrace[s-1].acyclic
        \*             THEN 1 + F[s-1] ELSE F[s-1]
        \*     IN F[_TEPosition - 1]
    ]

=============================================================================



Parsing and semantic processing can take forever if the trace below is long.
 In this case, it is advised to uncomment the module below to deserialize the
 trace from a generated binary file.

\*
\*---- MODULE Dag_TETrace ----
\*EXTENDS IOUtils, TLC, Dag
\*
\*trace == IODeserialize("Dag_TTrace_1790491036.bin", TRUE)
\*
\*=============================================================================
\*

---- MODULE Dag_TETrace ----
EXTENDS TLC, Dag

trace == 
    <<
    ([res |-> "ok",cacheV |-> FALSE,nodes |-> {},cacheR |-> FALSE,nextN |-> 0,edges |-> <<>>,acyclic |-> TRUE,eObj |-> <<>>,nextE |-> 0]),
    ([res |-> "ok",cacheV |-> FALSE,nodes |-> {0},cacheR |-> FALSE,nextN |-> 1,edges |-> <<>>,acyclic |-> TRUE,eObj |-> <<>>,nextE |-> 0]),
    ([res |-> "ok",cacheV |-> FALSE,nodes |-> {0, 1},cacheR |-> FALSE,nextN |-> 2,edges |-> <<>>,acyclic |-> TRUE,eObj |-> <<>>,nextE |-> 0]),
    ([res |-> "ok",cacheV |-> FALSE,nodes |-> {0, 1},cacheR |-> FALSE,nextN |-> 2,edges |-> (0 :> <<0, 0>>),acyclic |-> FALSE,eObj |-> <<>>,nextE |-> 1]),
    ([res |-> "RT",cacheV |-> FALSE,nodes |-> {0, 1},cacheR |-> TRUE,nextN |-> 2,edges |-> (0 :> <<0, 0>>),acyclic |-> FALSE,eObj |-> <<>>,nextE |-> 1]),
    ([res |-> "ok",cacheV |-> FALSE,nodes |-> {0, 1},cacheR |-> TRUE,nextN |-> 2,edges |-> <<>>,acyclic |-> TRUE,eObj |-> <<>>,nextE |-> 1])
    >>
----


=============================================================================

---- CONFIG Dag_TTrace_1790491036 ----
CONSTANTS
    MaxN = 3
    MaxE = 2
    EObjs = { 1 }
    Forget = { "RemoveSon" }

INVARIANT
    _inv

CHECK_DEADLOCK
    \* CHECK_DEADLOCK off because of PROPERTY or INVARIANT above.
    FALSE

INIT
    _init

NEXT
    _next

CONSTANT
    _TETrace <- _trace

ALIAS
    _expression
=============================================================================
\* Generated on Sun Sep 27 06:37:20 UTC 2026