---- MODULE DagTrace_TTrace_1790491845 ----
EXTENDS Sequences, TLCExt, Toolbox, Naturals, TLC, DagTrace

_expression ==
    LET DagTrace_TEExpression == INSTANCE DagTrace_TEExpression
    IN DagTrace_TEExpression!expression
----

_trace ==
    LET DagTrace_TETrace == INSTANCE DagTrace_TETrace
    IN DagTrace_TETrace!trace
----

_inv ==
    ~(
        TLCGet("level") = Len(_TETrace)
        /\
        res = ("RT")
        /\
        cacheV = (FALSE)
        /\
        nodes = ({0, 1, 2, 3, 4, 5})
        /\
        cacheR = (FALSE)
        /\
        nextN = (6)
        /\
        edges = ((0 :> <<0, 0>> @@ 1 :> <<1, 1>> @@ 2 :> <<1, 3>> @@ 3 :> <<3, 5>>))
        /\
        acyclic = (FALSE)
        /\
        l = (682)
        /\
        eObj = ((3 :> 1))
        /\
        nextE = (4)
    )
----

_init ==
    /\ acyclic = _TETrace[1].acyclic
    /\ l = _TETrace[1].l
    /\ nodes = _TETrace[1].nodes
    /\ res = _TETrace[1].res
    /\ eObj = _TETrace[1].eObj
    /\ edges = _TETrace[1].edges
    /\ cacheR = _TETrace[1].cacheR
    /\ cacheV = _TETrace[1].cacheV
    /\ nextE = _TETrace[1].nextE
    /\ nextN = _TETrace[1].nextN
----

_next ==
    /\ \E i,j \in DOMAIN _TETrace:
        /\ \/ /\ j = i + 1
              /\ i = TLCGet("level")
        /\ acyclic  = _TETrace[i].acyclic
        /\ acyclic' = _TETrace[j].acyclic
        /\ l  = _TETrace[i].l
        /\ l' = _TETrace[j].l
        /\ nodes  = _TETrace[i].nodes
        /\ nodes' = _TETrace[j].nodes
        /\ res  = _TETrace[i].res
        /\ res' = _TETrace[j].res
        /\ eObj  = _TETrace[i].eObj
        /\ eObj' = _TETrace[j].eObj
        /\ edges  = _TETrace[i].edges
        /\ edges' = _TETrace[j].edges
        /\ cacheR  = _TETrace[i].cacheR
        /\ cacheR' = _TETrace[j].cacheR
        /\ cacheV  = _TETrace[i].cacheV
        /\ cacheV' = _TETrace[j].cacheV
        /\ nextE  = _TETrace[i].nextE
        /\ nextE' = _TETrace[j].nextE
        /\ nextN  = _TETrace[i].nextN
        /\ nextN' = _TETrace[j].nextN

\* Uncomment the ASSUME below to write the states of the error trace
\* to the given file in Json format. Note that you can pass any tuple
\* to `JsonSerialize`. For example, a sub-sequence of _TETrace.
    \* ASSUME
    \*     LET J == INSTANCE Json
    \*         IN J!JsonSerialize("DagTrace_TTrace_1790491845.json", _TETrace)

=============================================================================

 Note that you can extract this module `DagTrace_TEExpression`
  to a dedicated file to reuse `expression` (the module in the 
  dedicated `DagTrace_TEExpression.tla` file takes precedence 
  over the module `DagTrace_TEExpression` below).

---- MODULE DagTrace_TEExpression ----
EXTENDS Sequences, TLCExt, Toolbox, Naturals, TLC, DagTrace

expression == 
    [
        \* To hide variables of the `DagTrace` spec from the error trace,
        \* remove the variables below.  The trace will be written in the order
        \* of the fields of this record.
        acyclic |-> acyclic
        ,l |-> l
        ,nodes |-> nodes
        ,res |-> res
        ,eObj |-> eObj
        ,edges |-> edges
        ,cacheR |-> cacheR
        ,cacheV |-> cacheV
        ,nextE |-> nextE
        ,nextN |-> nextN
        
        \* Put additional constant-, state-, and action-level expressions here:
        \* ,_stateNumber |-> _TEPosition
        \* ,_acyclicUnchanged |-> acyclic = acyclic'
        
        \* Format the `acyclic` variable as Json value.
        \* ,_acyclicJson |->
        \*     LET J == INSTANCE Json
        \*     IN J!ToJson(acyclic)
        
        \* Lastly, you may build expressions over arbitrary sets of states by
        \* leveraging the _TETrace operator.  For example, this is how to
        \* count the number of times a spec variable changed up to the current
        \* state in the trace.
        \* ,_acyclicModCount |->
        \*     LET F[s \in DOMAIN _TETrace] ==
        \*         IF s = 1 THEN 0
        \*         ELSE IF _TETrace[s].acyclic # _TETrace[s-1].acyclic
        \*             THEN 1 + F[s-1] ELSE F[s-1]
        \*     IN F[_TEPosition - 1]
    ]

=============================================================================



Parsing and semantic processing can take forever if the trace below is long.
 In this case, it is advised to uncomment the module below to deserialize the
 trace from a generated binary file.

\*
\*---- MODULE DagTrace_TETrace ----
\*EXTENDS IOUtils, TLC, DagTrace
\*
\*trace == IODeserialize("DagTrace_TTrace_1790491845.bin", TRUE)
\*
\*=============================================================================
\*

---- MODULE DagTrace_TETrace ----
EXTENDS TLC, DagTrace

trace == 
    <<
    ([res |-> "ok",cacheV |-> FALSE,nodes |-> {},cacheR |-> FALSE,nextN |-> 0,edges |-> <<>>,acyclic |-> TRUE,l |-> 1,eObj |-> <<>>,nextE |-> 0]),
    ([res |-> "ok",cacheV |-> FALSE,nodes |-> {},cacheR |-> FALSE,nextN |-> 0,edges |-> <<>>,acyclic |-> TRUE,l |-> 2,eObj |-> <<>>,nextE |-> 0]),
    ([res |-> "ok",cacheV |-> FALSE,nodes |-> {0},cacheR |-> FALSE,nextN |-> 1,edges |-> <<>>,acyclic |-> TRUE,l |-> 3,eObj |-> <<>>,nextE |-> 0]),
    ([res |-> "ok",cacheV |-> FALSE,nodes |-> {0, 1},cacheR |-> FALSE,nextN |-> 2,edges |-> <<>>,acyclic |-> TRUE,l |-> 4,eObj |-> <<>>,nextE |-> 0]),
    ([res |-> "ok",cacheV |-> FALSE,nodes |-> {0, 1, 2},cacheR |-> FALSE,nextN |-> 3,edges |-> <<>>,acyclic |-> TRUE,l |-> 5,eObj |-> <<>>,nextE |-> 0]),
    ([res |-> "ok",cacheV |-> FALSE,nodes |-> {0, 1, 2, 3},cacheR |-> FALSE,nextN |-> 4,edges |-> <<>>,acyclic |-> TRUE,l |-> 6,eObj |-> <<>>,nextE |-> 0]),
    ([res |-> "ok",cacheV |-> FALSE,nodes |-> {0, 1, 2, 3, 4},cacheR |-> FALSE,nextN |-> 5,edges |-> <<>>,acyclic |-> TRUE,l |-> 7,eObj |-> <<>>,nextE |-> 0]),
    ([res |-> "ok",cacheV |-> FALSE,nodes |-> {0, 1, 2, 3, 4},cacheR |-> FALSE,nextN |-> 5,edges |-> (0 :> <<2, 3>>),acyclic |-> TRUE,l |-> 8,eObj |-> <<>>,nextE |-> 1]),
    ([res |-> "RF",cacheV |-> FALSE,nodes |-> {0, 1, 2, 3, 4},cacheR |-> FALSE,nextN |-> 5,edges |-> (0 :> <<2, 3>>),acyclic |-> TRUE,l |-> 9,eObj |-> <<>>,nextE |-> 1]),
    ([res |-> "ok",cacheV |-> FALSE,nodes |-> {0, 1, 2, 3, 4},cacheR |-> FALSE,nextN |-> 5,edges |-> (0 :> <<2, 3>> @@ 1 :> <<3, 0>>),acyclic |-> TRUE,l |-> 10,eObj |-> <<1>>,nextE |-> 2]),
    ([res |-> "raise",cacheV |-> FALSE,nodes |-> {0, 1, 2, 3, 4},cacheR |-> FALSE,nextN |-> 5,edges |-> (0 :> <<2, 3>> @@ 1 :> <<3, 0>>),acyclic |-> TRUE,l |-> 11,eObj |-> <<1>>,nextE |-> 2]),
    ([res |-> "ok",cacheV |-> FALSE,nodes |-> {0, 1, 2, 3, 4},cacheR |-> FALSE,nextN |-> 5,edges |-> (0 :> <<2, 3>> @@ 1 :> <<3, 0>> @@ 2 :> <<2, 1>>),acyclic |-> TRUE,l |-> 12,eObj |-> <<1>>,nextE |-> 3]),
    ([res |-> "ok",cacheV |-> FALSE,nodes |-> {0, 1, 2, 3, 4},cacheR |-> FALSE,nextN |-> 5,edges |-> (0 :> <<2, 3>> @@ 1 :> <<3, 0>> @@ 2 :> <<2, 1>> @@ 3 :> <<3, 4>>),acyclic |-> TRUE,l |-> 13,eObj |-> (1 :> 1 @@ 3 :> 2),nextE |-> 4]),
    ([res |-> "T",cacheV |-> TRUE,nodes |-> {0, 1, 2, 3, 4},cacheR |-> FALSE,nextN |-> 5,edges |-> (0 :> <<2, 3>> @@ 1 :> <<3, 0>> @@ 2 :> <<2, 1>> @@ 3 :> <<3, 4>>),acyclic |-> TRUE,l |-> 14,eObj |-> (1 :> 1 @@ 3 :> 2),nextE |-> 4]),
    ([res |-> "RT",cacheV |-> TRUE,nodes |-> {0, 1, 2, 3, 4},cacheR |-> TRUE,nextN |-> 5,edges |-> (0 :> <<2, 3>> @@ 1 :> <<3, 0>> @@ 2 :> <<2, 1>> @@ 3 :> <<3, 4>>),acyclic |-> TRUE,l |-> 15,eObj |-> (1 :> 1 @@ 3 :> 2),nextE |-> 4]),
    ([res |-> "ok",cacheV |-> TRUE,nodes |-> {0, 1, 2, 3, 4},cacheR |-> TRUE,nextN |-> 5,edges |-> (0 :> <<2, 3>> @@ 1 :> <<3, 0>> @@ 2 :> <<2, 1>> @@ 3 :> <<3, 4>>),acyclic |-> TRUE,l |-> 16,eObj |-> (1 :> 1 @@ 3 :> 2),nextE |-> 4]),
    ([res |-> "ok",cacheV |-> TRUE,nodes |-> {0, 1, 2, 3, 4},cacheR |-> TRUE,nextN |-> 5,edges |-> (0 :> <<2, 3>> @@ 1 :> <<3, 0>> @@ 2 :> <<2, 1>> @@ 3 :> <<3, 4>>),acyclic |-> TRUE,l |-> 17,eObj |-> (1 :> 1 @@ 3 :> 2),nextE |-> 4]),
    ([res |-> "ok",cacheV |-> TRUE,nodes |-> {0, 1, 2, 3, 4},cacheR |-> TRUE,nextN |-> 5,edges |-> (0 :> <<2, 3>> @@ 1 :> <<3, 0>> @@ 2 :> <<2, 1>> @@ 3 :> <<3, 4>>),acyclic |-> TRUE,l |-> 18,eObj |-> (1 :> 1 @@ 3 :> 2),nextE |-> 4]),
    ([res |-> "ok",cacheV |-> TRUE,nodes |-> {0, 1, 2, 3, 4},cacheR |-> TRUE,nextN |-> 5,edges |-> (0 :> <<2, 3>> @@ 1 :> <<3, 0>> @@ 2 :> <<2, 1>> @@ 3 :> <<3, 4>>),acyclic |-> TRUE,l |-> 19,eObj |-> (1 :> 1 @@ 3 :> 2),nextE |-> 4]),
    ([res |-> "ok",cacheV |-> TRUE,nodes |-> {0, 1, 2, 3, 4},cacheR |-> TRUE,nextN |-> 5,edges |-> (0 :> <<2, 3>> @@ 1 :> <<3, 0>> @@ 2 :> <<2, 1>> @@ 3 :> <<3, 4>>),acyclic |-> TRUE,l |-> 20,eObj |-> (1 :> 1 @@ 3 :> 2),nextE |-> 4]),
    ([res |-> "ok",cacheV |-> TRUE,nodes |-> {0, 1, 2, 3, 4},cacheR |-> TRUE,nextN |-> 5,edges |-> (0 :> <<2, 3>> @@ 1 :> <<3, 0>> @@ 2 :> <<2, 1>> @@ 3 :> <<3, 4>>),acyclic |-> TRUE,l |-> 21,eObj |-> (1 :> 1 @@ 3 :> 2),nextE |-> 4]),
    ([res |-> "ok",cacheV |-> TRUE,nodes |-> {0, 1, 2, 3, 4},cacheR |-> TRUE,nextN |-> 5,edges |-> (0 :> <<2, 3>> @@ 1 :> <<3, 0>> @@ 2 :> <<2, 1>> @@ 3 :> <<3, 4>>),acyclic |-> TRUE,l |-> 22,eObj |-> (1 :> 1 @@ 3 :> 2),nextE |-> 4]),
    ([res |-> "ok",cacheV |-> FALSE,nodes |-> {},cacheR |-> FALSE,nextN |-> 0,edges |-> <<>>,acyclic |-> TRUE,l |-> 23,eObj |-> <<>>,nextE |-> 0]),
    ([res |-> "raise",cacheV |-> FALSE,nodes |-> {},cacheR |-> FALSE,nextN |-> 0,edges |-> <<>>,acyclic |-> TRUE,l |-> 24,eObj |-> <<>>,nextE |-> 0]),
    ([res |-> "raise",cacheV |-> FALSE,nodes |-> {},cacheR |-> FALSE,nextN |-> 0,edges |-> <<>>,acyclic |-> TRUE,l |-> 25,eObj |-> <<>>,nextE |-> 0]),
    ([res |-> "ok",cacheV |-> FALSE,nodes |-> {},cacheR |-> FALSE,nextN |-> 0,edges |-> <<>>,acyclic |-> TRUE,l |-> 26,eObj |-> <<>>,nextE |-> 0]),
    ([res |-> "ok",cacheV |-> FALSE,nodes |-> {},cacheR |-> FALSE,nextN |-> 0,edges |-> <<>>,acyclic |-> TRUE,l |-> 27,eObj |-> <<>>,nextE |-> 0]),
    ([res |-> "ok",cacheV |-> FALSE,nodes |-> {0},cacheR |-> FALSE,nextN |-> 1,edges |-> <<>>,acyclic |-> TRUE,l |-> 28,eObj |-> <<>>,nextE |-> 0]),
    ([res |-> "ok",cacheV |-> FALSE,nodes |-> {0, 1},cacheR |-> FALSE,nextN |-> 2,edges |-> <<>>,acyclic |-> TRUE,l |-> 29,eObj |-> <<>>,nextE |-> 0]),
    ([res |-> "ok",cacheV |-> FALSE,nodes |-> {0, 1, 2},cacheR |-> FALSE,nextN |-> 3,edges |-> <<>>,acyclic |-> TRUE,l |-> 30,eObj |-> <<>>,nextE |-> 0]),
    ([res |-> "ok",cacheV |-> FALSE,nodes |-> {0, 1, 2, 3},cacheR |-> FALSE,nextN |-> 4,edges |-> <<>>,acyclic |-> TRUE,l |-> 31,eObj |-> <<>>,nextE |-> 0]),
    ([res |-> "ok",cacheV |-> FALSE,nodes |-> {0, 1, 2, 3, 4},cacheR |-> FALSE,nextN |-> 5,edges |-> <<>>,acyclic |-> TRUE,l |-> 32,eObj |-> <<>>,nextE |-> 0]),
    ([res |-> "ok",cacheV |-> FALSE,nodes |-> {0, 1, 2, 3, 4},cacheR |-> FALSE,nextN |-> 5,edges |-> <<>>,acyclic |-> TRUE,l |-> 33,eObj |-> <<>>,nextE |-> 0]),
    ([res |-> "ok",cacheV |-> FALSE,nodes |-> {0, 1, 2, 3, 4},cacheR |-> FALSE,nextN |-> 5,edges |-> <<>>,acyclic |-> TRUE,l |-> 34,eObj |-> <<>>,nextE |-> 0]),
    ([res |-> "T",cacheV |-> TRUE,nodes |-> {0, 1, 2, 3, 4},cacheR |-> FALSE,nextN |-> 5,edges |-> <<>>,acyclic |-> TRUE,l |-> 35,eObj |-> <<>>,nextE |-> 0]),
    ([res |-> "RF",cacheV |-> TRUE,nodes |-> {0, 1, 2, 3, 4},cacheR |-> FALSE,nextN |-> 5,edges |-> <<>>,acyclic |-> TRUE,l |-> 36,eObj |-> <<>>,nextE |-> 0]),
    ([res |-> "ok",cacheV |-> TRUE,nodes |-> {0, 1, 2, 3, 4},cacheR |-> FALSE,nextN |-> 5,edges |-> <<>>,acyclic |-> TRUE,l |-> 37,eObj |-> <<>>,nextE |-> 0]),
    ([res |-> "ok",cacheV |-> TRUE,nodes |-> {0, 1, 2, 3, 4},cacheR |-> FALSE,nextN |-> 5,edges |-> <<>>,acyclic |-> TRUE,l |-> 38,eObj |-> <<>>,nextE |-> 0]),
    ([res |-> "T",cacheV |-> TRUE,nodes |-> {0, 1, 2, 3, 4},cacheR |-> FALSE,nextN |-> 5,edges |-> <<>>,acyclic |-> TRUE,l |-> 39,eObj |-> <<>>,nextE |-> 0]),
    ([res |-> "T",cacheV |-> TRUE,nodes |-> {0, 1, 2, 3, 4},cacheR |-> FALSE,nextN |-> 5,edges |-> <<>>,acyclic |-> TRUE,l |-> 40,eObj |-> <<>>,nextE |-> 0]),
    ([res |-> "ok",cacheV |-> TRUE,nodes |-> {0, 1, 2, 3, 4},cacheR |-> FALSE,nextN |-> 5,edges |-> <<>>,acyclic |-> TRUE,l |-> 41,eObj |-> <<>>,nextE |-> 0]),
    ([res |-> "ok",cacheV |-> TRUE,nodes |-> {0, 1, 2, 3, 4},cacheR |-> FALSE,nextN |-> 5,edges |-> <<>>,acyclic |-> TRUE,l |-> 42,eObj |-> <<>>,nextE |-> 0]),
    ([res |-> "T",cacheV |-> TRUE,nodes |-> {0, 1, 2, 3, 4},cacheR |-> FALSE,nextN |-> 5,edges |-> <<>>,acyclic |-> TRUE,l |-> 43,eObj |-> <<>>,nextE |-> 0]),
    ([res |-> "ok",cacheV |-> FALSE,nodes |-> {0, 1, 2, 3, 4, 5},cacheR |-> FALSE,nextN |-> 6,edges |-> <<>>,acyclic |-> TRUE,l |-> 44,eObj |-> <<>>,nextE |-> 0]),
    ([res |-> "raise",cacheV |-> FALSE,nodes |-> {0, 1, 2, 3, 4, 5},cacheR |-> FALSE,nextN |-> 6,edges |-> <<>>,acyclic |-> TRUE,l |-> 45,eObj |-> <<>>,nextE |-> 0]),
    ([res |-> "ok",cacheV |-> TRUE,nodes |-> {0, 1, 2, 3, 4, 5},cacheR |-> FALSE,nextN |-> 6,edges |-> <<>>,acyclic |-> TRUE,l |-> 46,eObj |-> <<>>,nextE |-> 0]),
    ([res |-> "raise",cacheV |-> TRUE,nodes |-> {0, 1, 2, 3, 4, 5},cacheR |-> FALSE,nextN |-> 6,edges |-> <<>>,acyclic |-> TRUE,l |-> 47,eObj |-> <<>>,nextE |-> 0]),
    ([res |-> "ok",cacheV |-> TRUE,nodes |-> {0, 1, 2, 3, 4, 5},cacheR |-> FALSE,nextN |-> 6,edges |-> <<>>,acyclic |-> TRUE,l |-> 48,eObj |-> <<>>,nextE |-> 0]),
    ([res |-> "RF",cacheV |-> TRUE,nodes |-> {0, 1, 2, 3, 4, 5},cacheR |-> FALSE,nextN |-> 6,edges |-> <<>>,acyclic |-> TRUE,l |-> 49,eObj |-> <<>>,nextE |-> 0]),
    ([res |-> "T",cacheV |-> TRUE,nodes |-> {0, 1, 2, 3, 4, 5},cacheR |-> FALSE,nextN |-> 6,edges |-> <<>>,acyclic |-> TRUE,l |-> 50,eObj |-> <<>>,nextE |-> 0]),
    ([res |-> "ok",cacheV |-> TRUE,nodes |-> {0, 1, 2, 3, 4, 5},cacheR |-> FALSE,nextN |-> 6,edges |-> <<>>,acyclic |-> TRUE,l |-> 51,eObj |-> <<>>,nextE |-> 0]),
    ([res |-> "T",cacheV |-> TRUE,nodes |-> {0, 1, 2, 3, 4, 5},cacheR |-> FALSE,nextN |-> 6,edges |-> <<>>,acyclic |-> TRUE,l |-> 52,eObj |-> <<>>,nextE |-> 0]),
    ([res |-> "RF",cacheV |-> TRUE,nodes |-> {0, 1, 2, 3, 4, 5},cacheR |-> FALSE,nextN |-> 6,edges |-> <<>>,acyclic |-> TRUE,l |-> 53,eObj |-> <<>>,nextE |-> 0]),
    ([res |-> "ok",cacheV |-> TRUE,nodes |-> {0, 1, 2, 3, 4, 5},cacheR |-> FALSE,nextN |-> 6,edges |-> <<>>,acyclic |-> TRUE,l |-> 54,eObj |-> <<>>,nextE |-> 0]),
    ([res |-> "ok",cacheV |-> TRUE,nodes |-> {0, 1, 2, 3, 4, 5},cacheR |-> FALSE,nextN |-> 6,edges |-> <<>>,acyclic |-> TRUE,l |-> 55,eObj |-> <<>>,nextE |-> 0]),
    ([res |-> "ok",cacheV |-> TRUE,nodes |-> {0, 1, 2, 3, 4, 5},cacheR |-> FALSE,nextN |-> 6,edges |-> <<>>,acyclic |-> TRUE,l |-> 56,eObj |-> <<>>,nextE |-> 0]),
    ([res |-> "ok",cacheV |-> FALSE,nodes |-> {0, 1, 2, 3, 4, 5},cacheR |-> FALSE,nextN |-> 6,edges |-> (0 :> <<4, 0>>),acyclic |-> TRUE,l |-> 57,eObj |-> (0 :> 1),nextE |-> 1]),
    ([res |-> "T",cacheV |-> TRUE,nodes |-> {0, 1, 2, 3, 4, 5},cacheR |-> FALSE,nextN |-> 6,edges |-> (0 :> <<4, 0>>),acyclic |-> TRUE,l |-> 58,eObj |-> (0 :> 1),nextE |-> 1]),
    ([res |-> "ok",cacheV |-> FALSE,nodes |-> {0, 1, 2, 3, 4, 5},cacheR |-> FALSE,nextN |-> 6,edges |-> (0 :> <<4, 0>> @@ 1 :> <<1, 4>>),acyclic |-> TRUE,l |-> 59,eObj |-> (0 :> 1 @@ 1 :> 2),nextE |-> 2]),
    ([res |-> "ok",cacheV |-> FALSE,nodes |-> {0, 1, 2, 3, 4, 5},cacheR |-> FALSE,nextN |-> 6,edges |-> (0 :> <<4, 0>> @@ 1 :> <<1, 4>> @@ 2 :> <<3, 4>>),acyclic |-> TRUE,l |-> 60,eObj |-> (0 :> 1 @@ 1 :> 2),nextE |-> 3]),
    ([res |-> "ok",cacheV |-> FALSE,nodes |-> {0, 1, 2, 3, 4, 5},cacheR |-> FALSE,nextN |-> 6,edges |-> (0 :> <<4, 0>> @@ 1 :> <<1, 4>> @@ 2 :> <<3, 4>> @@ 3 :> <<0, 4>>),acyclic |-> FALSE,l |-> 61,eObj |-> (0 :> 1 @@ 1 :> 2 @@ 3 :> 3),nextE |-> 4]),
    ([res |-> "RF",cacheV |-> FALSE,nodes |-> {0, 1, 2, 3, 4, 5},cacheR |-> FALSE,nextN |-> 6,edges |-> (0 :> <<4, 0>> @@ 1 :> <<1, 4>> @@ 2 :> <<3, 4>> @@ 3 :> <<0, 4>>),acyclic |-> FALSE,l |-> 62,eObj |-> (0 :> 1 @@ 1 :> 2 @@ 3 :> 3),nextE |-> 4]),
    ([res |-> "ok",cacheV |-> FALSE,nodes |-> {0, 1, 2, 3, 4, 5},cacheR |-> FALSE,nextN |-> 6,edges |-> (0 :> <<4, 0>> @@ 2 :> <<3, 4>> @@ 3 :> <<0, 4>>),acyclic |-> FALSE,l |-> 63,eObj |-> (0 :> 1 @@ 3 :> 3),nextE |-> 4]),
    ([res |-> "F",cacheV |-> FALSE,nodes |-> {0, 1, 2, 3, 4, 5},cacheR |-> FALSE,nextN |-> 6,edges |-> (0 :> <<4, 0>> @@ 2 :> <<3, 4>> @@ 3 :> <<0, 4>>),acyclic |-> FALSE,l |-> 64,eObj |-> (0 :> 1 @@ 3 :> 3),nextE |-> 4]),
    ([res |-> "ok",cacheV |-> FALSE,nodes |-> {0, 1, 2, 3, 4, 5},cacheR |-> FALSE,nextN |-> 6,edges |-> (0 :> <<4, 0>> @@ 2 :> <<3, 4>> @@ 3 :> <<0, 4>> @@ 4 :> <<2, 1>>),acyclic |-> FALSE,l |-> 65,eObj |-> (0 :> 1 @@ 3 :> 3 @@ 4 :> 2),nextE |-> 5]),
    ([res |-> "F",cacheV |-> FALSE,nodes |-> {0, 1, 2, 3, 4, 5},cacheR |-> FALSE,nextN |-> 6,edges |-> (0 :> <<4, 0>> @@ 2 :> <<3, 4>> @@ 3 :> <<0, 4>> @@ 4 :> <<2, 1>>),acyclic |-> FALSE,l |-> 66,eObj |-> (0 :> 1 @@ 3 :> 3 @@ 4 :> 2),nextE |-> 5]),
    ([res |-> "RF",cacheV |-> FALSE,nodes |-> {0, 1, 2, 3, 4, 5},cacheR |-> FALSE,nextN |-> 6,edges |-> (0 :> <<4, 0>> @@ 2 :> <<3, 4>> @@ 3 :> <<0, 4>> @@ 4 :> <<2, 1>>),acyclic |-> FALSE,l |-> 67,eObj |-> (0 :> 1 @@ 3 :> 3 @@ 4 :> 2),nextE |-> 5]),
    ([res |-> "ok",cacheV |-> FALSE,nodes |-> {0, 1, 2, 3, 4, 5},cacheR |-> FALSE,nextN |-> 6,edges |-> (0 :> <<4, 0>> @@ 2 :> <<3, 4>> @@ 3 :> <<0, 4>> @@ 4 :> <<2, 1>>),acyclic |-> FALSE,l |-> 68,eObj |-> (0 :> 1 @@ 3 :> 3 @@ 4 :> 2),nextE |-> 5]),
    ([res |-> "raise",cacheV |-> FALSE,nodes |-> {0, 1, 2, 3, 4, 5},cacheR |-> FALSE,nextN |-> 6,edges |-> (0 :> <<4, 0>> @@ 2 :> <<3, 4>> @@ 3 :> <<0, 4>> @@ 4 :> <<2, 1>>),acyclic |-> FALSE,l |-> 69,eObj |-> (0 :> 1 @@ 3 :> 3 @@ 4 :> 2),nextE |-> 5]),
    ([res |-> "ok",cacheV |-> FALSE,nodes |-> {},cacheR |-> FALSE,nextN |-> 0,edges |-> <<>>,acyclic |-> TRUE,l |-> 70,eObj |-> <<>>,nextE |-> 0]),
    ([res |-> "ok",cacheV |-> FALSE,nodes |-> {0},cacheR |-> FALSE,nextN |-> 1,edges |-> <<>>,acyclic |-> TRUE,l |-> 71,eObj |-> <<>>,nextE |-> 0]),
    ([res |-> "ok",cacheV |-> FALSE,nodes |-> {0, 1},cacheR |-> FALSE,nextN |-> 2,edges |-> <<>>,acyclic |-> TRUE,l |-> 72,eObj |-> <<>>,nextE |-> 0]),
    ([res |-> "ok",cacheV |-> FALSE,nodes |-> {0, 1, 2},cacheR |-> FALSE,nextN |-> 3,edges |-> <<>>,acyclic |-> TRUE,l |-> 73,eObj |-> <<>>,nextE |-> 0]),
    ([res |-> "ok",cacheV |-> FALSE,nodes |-> {0, 1, 2, 3},cacheR |-> FALSE,nextN |-> 4,edges |-> <<>>,acyclic |-> TRUE,l |-> 74,eObj |-> <<>>,nextE |-> 0]),
    ([res |-> "ok",cacheV |-> FALSE,nodes |-> {0, 1, 2, 3, 4},cacheR |-> FALSE,nextN |-> 5,edges |-> <<>>,acyclic |-> TRUE,l |-> 75,eObj |-> <<>>,nextE |-> 0]),
    ([res |-> "ok",cacheV |-> FALSE,nodes |-> {0, 1, 2, 3, 4},cacheR |-> FALSE,nextN |-> 5,edges |-> (0 :> <<1, 0>>),acyclic |-> TRUE,l |-> 76,eObj |-> <<>>,nextE |-> 1]),
    ([res |-> "ok",cacheV |-> FALSE,nodes |-> {0, 1, 2, 3, 4},cacheR |-> FALSE,nextN |-> 5,edges |-> (0 :> <<1, 0>> @@ 1 :> <<1, 3>>),acyclic |-> TRUE,l |-> 77,eObj |-> <<1>>,nextE |-> 2]),
    ([res |-> "ok",cacheV |-> FALSE,nodes |-> {0, 1, 2, 3, 4},cacheR |-> FALSE,nextN |-> 5,edges |-> (0 :> <<1, 0>> @@ 1 :> <<1, 3>> @@ 2 :> <<2, 0>>),acyclic |-> TRUE,l |-> 78,eObj |-> <<1>>,nextE |-> 3]),
    ([res |-> "raise",cacheV |-> FALSE,nodes |-> {0, 1, 2, 3, 4},cacheR |-> FALSE,nextN |-> 5,edges |-> (0 :> <<1, 0>> @@ 1 :> <<1, 3>> @@ 2 :> <<2, 0>>),acyclic |-> TRUE,l |-> 79,eObj |-> <<1>>,nextE |-> 3]),
    ([res |-> "T",cacheV |-> TRUE,nodes |-> {0, 1, 2, 3, 4},cacheR |-> FALSE,nextN |-> 5,edges |-> (0 :> <<1, 0>> @@ 1 :> <<1, 3>> @@ 2 :> <<2, 0>>),acyclic |-> TRUE,l |-> 80,eObj |-> <<1>>,nextE |-> 3]),
    ([res |-> "ok",cacheV |-> FALSE,nodes |-> {0, 1, 2, 3, 4},cacheR |-> FALSE,nextN |-> 5,edges |-> (0 :> <<1, 0>> @@ 1 :> <<1, 3>> @@ 2 :> <<2, 0>> @@ 3 :> <<2, 3>>),acyclic |-> TRUE,l |-> 81,eObj |-> (1 :> 1 @@ 3 :> 2),nextE |-> 4]),
    ([res |-> "ok",cacheV |-> FALSE,nodes |-> {0, 1, 2, 3, 4},cacheR |-> FALSE,nextN |-> 5,edges |-> (0 :> <<1, 0>> @@ 1 :> <<1, 3>> @@ 2 :> <<2, 0>> @@ 3 :> <<2, 3>> @@ 4 :> <<0, 1>>),acyclic |-> FALSE,l |-> 82,eObj |-> (1 :> 1 @@ 3 :> 2),nextE |-> 5]),
    ([res |-> "F",cacheV |-> FALSE,nodes |-> {0, 1, 2, 3, 4},cacheR |-> FALSE,nextN |-> 5,edges |-> (0 :> <<1, 0>> @@ 1 :> <<1, 3>> @@ 2 :> <<2, 0>> @@ 3 :> <<2, 3>> @@ 4 :> <<0, 1>>),acyclic |-> FALSE,l |-> 83,eObj |-> (1 :> 1 @@ 3 :> 2),nextE |-> 5]),
    ([res |-> "ok",cacheV |-> FALSE,nodes |-> {0, 1, 2, 3, 4},cacheR |-> FALSE,nextN |-> 5,edges |-> (0 :> <<1, 0>> @@ 1 :> <<1, 3>> @@ 2 :> <<2, 0>> @@ 3 :> <<2, 3>> @@ 4 :> <<0, 1>> @@ 5 :> <<3, 0>>),acyclic |-> FALSE,l |-> 84,eObj |-> (1 :> 1 @@ 3 :> 2),nextE |-> 6]),
    ([res |-> "RF",cacheV |-> FALSE,nodes |-> {0, 1, 2, 3, 4},cacheR |-> FALSE,nextN |-> 5,edges |-> (0 :> <<1, 0>> @@ 1 :> <<1, 3>> @@ 2 :> <<2, 0>> @@ 3 :> <<2, 3>> @@ 4 :> <<0, 1>> @@ 5 :> <<3, 0>>),acyclic |-> FALSE,l |-> 85,eObj |-> (1 :> 1 @@ 3 :> 2),nextE |-> 6]),
    ([res |-> "raise",cacheV |-> FALSE,nodes |-> {0, 1, 2, 3, 4},cacheR |-> FALSE,nextN |-> 5,edges |-> (0 :> <<1, 0>> @@ 1 :> <<1, 3>> @@ 2 :> <<2, 0>> @@ 3 :> <<2, 3>> @@ 4 :> <<0, 1>> @@ 5 :> <<3, 0>>),acyclic |-> FALSE,l |-> 86,eObj |-> (1 :> 1 @@ 3 :> 2),nextE |-> 6]),
    ([res |-> "F",cacheV |-> FALSE,nodes |-> {0, 1, 2, 3, 4},cacheR |-> FALSE,nextN |-> 5,edges |-> (0 :> <<1, 0>> @@ 1 :> <<1, 3>> @@ 2 :> <<2, 0>> @@ 3 :> <<2, 3>> @@ 4 :> <<0, 1>> @@ 5 :> <<3, 0>>),acyclic |-> FALSE,l |-> 87,eObj |-> (1 :> 1 @@ 3 :> 2),nextE |-> 6]),
    ([res |-> "RF",cacheV |-> FALSE,nodes |-> {0, 1, 2, 3, 4},cacheR |-> FALSE,nextN |-> 5,edges |-> (0 :> <<1, 0>> @@ 1 :> <<1, 3>> @@ 2 :> <<2, 0>> @@ 3 :> <<2, 3>> @@ 4 :> <<0, 1>> @@ 5 :> <<3, 0>>),acyclic |-> FALSE,l |-> 88,eObj |-> (1 :> 1 @@ 3 :> 2),nextE |-> 6]),
    ([res |-> "ok",cacheV |-> FALSE,nodes |-> {0, 1, 2, 3, 4},cacheR |-> FALSE,nextN |-> 5,edges |-> (0 :> <<1, 0>> @@ 1 :> <<1, 3>> @@ 2 :> <<2, 0>> @@ 3 :> <<2, 3>> @@ 4 :> <<0, 1>> @@ 5 :> <<3, 0>>),acyclic |-> FALSE,l |-> 89,eObj |-> (1 :> 1 @@ 3 :> 2),nextE |-> 6]),
    ([res |-> "raise",cacheV |-> FALSE,nodes |-> {0, 1, 2, 3, 4},cacheR |-> FALSE,nextN |-> 5,edges |-> (0 :> <<1, 0>> @@ 1 :> <<1, 3>> @@ 2 :> <<2, 0>> @@ 3 :> <<2, 3>> @@ 4 :> <<0, 1>> @@ 5 :> <<3, 0>>),acyclic |-> FALSE,l |-> 90,eObj |-> (1 :> 1 @@ 3 :> 2),nextE |-> 6]),
    ([res |-> "ok",cacheV |-> FALSE,nodes |-> {},cacheR |-> FALSE,nextN |-> 0,edges |-> <<>>,acyclic |-> TRUE,l |-> 91,eObj |-> <<>>,nextE |-> 0]),
    ([res |-> "ok",cacheV |-> FALSE,nodes |-> {},cacheR |-> FALSE,nextN |-> 0,edges |-> <<>>,acyclic |-> TRUE,l |-> 92,eObj |-> <<>>,nextE |-> 0]),
    ([res |-> "ok",cacheV |-> FALSE,nodes |-> {},cacheR |-> FALSE,nextN |-> 0,edges |-> <<>>,acyclic |-> TRUE,l |-> 93,eObj |-> <<>>,nextE |-> 0]),
    ([res |-> "RT",cacheV |-> FALSE,nodes |-> {},cacheR |-> FALSE,nextN |-> 0,edges |-> <<>>,acyclic |-> TRUE,l |-> 94,eObj |-> <<>>,nextE |-> 0]),
    ([res |-> "ok",cacheV |-> FALSE,nodes |-> {0},cacheR |-> FALSE,nextN |-> 1,edges |-> <<>>,acyclic |-> TRUE,l |-> 95,eObj |-> <<>>,nextE |-> 0]),
    ([res |-> "RT",cacheV |-> FALSE,nodes |-> {0},cacheR |-> TRUE,nextN |-> 1,edges |-> <<>>,acyclic |-> TRUE,l |-> 96,eObj |-> <<>>,nextE |-> 0]),
    ([res |-> "T",cacheV |-> TRUE,nodes |-> {0},cacheR |-> TRUE,nextN |-> 1,edges |-> <<>>,acyclic |-> TRUE,l |-> 97,eObj |-> <<>>,nextE |-> 0]),
    ([res |-> "ok",cacheV |-> FALSE,nodes |-> {0},cacheR |-> FALSE,nextN |-> 1,edges |-> (0 :> <<0, 0>>),acyclic |-> FALSE,l |-> 98,eObj |-> <<>>,nextE |-> 1]),
    ([res |-> "raise",cacheV |-> FALSE,nodes |-> {0},cacheR |-> FALSE,nextN |-> 1,edges |-> (0 :> <<0, 0>>),acyclic |-> FALSE,l |-> 99,eObj |-> <<>>,nextE |-> 1]),
    ([res |-> "ok",cacheV |-> FALSE,nodes |-> {},cacheR |-> FALSE,nextN |-> 1,edges |-> <<>>,acyclic |-> TRUE,l |-> 100,eObj |-> <<>>,nextE |-> 1]),
    ([res |-> "raise",cacheV |-> FALSE,nodes |-> {},cacheR |-> FALSE,nextN |-> 1,edges |-> <<>>,acyclic |-> TRUE,l |-> 101,eObj |-> <<>>,nextE |-> 1]),
    ([res |-> "ok",cacheV |-> FALSE,nodes |-> {1},cacheR |-> FALSE,nextN |-> 2,edges |-> <<>>,acyclic |-> TRUE,l |-> 102,eObj |-> <<>>,nextE |-> 1]),
    ([res |-> "ok",cacheV |-> TRUE,nodes |-> {1},cacheR |-> FALSE,nextN |-> 2,edges |-> <<>>,acyclic |-> TRUE,l |-> 103,eObj |-> <<>>,nextE |-> 1]),
    ([res |-> "T",cacheV |-> TRUE,nodes |-> {1},cacheR |-> FALSE,nextN |-> 2,edges |-> <<>>,acyclic |-> TRUE,l |-> 104,eObj |-> <<>>,nextE |-> 1]),
    ([res |-> "RT",cacheV |-> TRUE,nodes |-> {1},cacheR |-> TRUE,nextN |-> 2,edges |-> <<>>,acyclic |-> TRUE,l |-> 105,eObj |-> <<>>,nextE |-> 1]),
    ([res |-> "ok",cacheV |-> TRUE,nodes |-> {1},cacheR |-> TRUE,nextN |-> 2,edges |-> <<>>,acyclic |-> TRUE,l |-> 106,eObj |-> <<>>,nextE |-> 1]),
    ([res |-> "ok",cacheV |-> TRUE,nodes |-> {1},cacheR |-> TRUE,nextN |-> 2,edges |-> <<>>,acyclic |-> TRUE,l |-> 107,eObj |-> <<>>,nextE |-> 1]),
    ([res |-> "ok",cacheV |-> TRUE,nodes |-> {1},cacheR |-> TRUE,nextN |-> 2,edges |-> <<>>,acyclic |-> TRUE,l |-> 108,eObj |-> <<>>,nextE |-> 1]),
    ([res |-> "T",cacheV |-> TRUE,nodes |-> {1},cacheR |-> TRUE,nextN |-> 2,edges |-> <<>>,acyclic |-> TRUE,l |-> 109,eObj |-> <<>>,nextE |-> 1]),
    ([res |-> "ok",cacheV |-> FALSE,nodes |-> {1, 2},cacheR |-> FALSE,nextN |-> 3,edges |-> <<>>,acyclic |-> TRUE,l |-> 110,eObj |-> <<>>,nextE |-> 1]),
    ([res |-> "ok",cacheV |-> FALSE,nodes |-> {1, 2},cacheR |-> FALSE,nextN |-> 3,edges |-> <<<<2, 1>>>>,acyclic |-> TRUE,l |-> 111,eObj |-> <<1>>,nextE |-> 2]),
    ([res |-> "T",cacheV |-> TRUE,nodes |-> {1, 2},cacheR |-> FALSE,nextN |-> 3,edges |-> <<<<2, 1>>>>,acyclic |-> TRUE,l |-> 112,eObj |-> <<1>>,nextE |-> 2]),
    ([res |-> "ok",cacheV |-> FALSE,nodes |-> {1, 2},cacheR |-> FALSE,nextN |-> 3,edges |-> <<<<2, 1>>, <<2, 2>>>>,acyclic |-> FALSE,l |-> 113,eObj |-> <<1>>,nextE |-> 3]),
    ([res |-> "ok",cacheV |-> FALSE,nodes |-> {1, 2, 3},cacheR |-> FALSE,nextN |-> 4,edges |-> <<<<2, 1>>, <<2, 2>>>>,acyclic |-> FALSE,l |-> 114,eObj |-> <<1>>,nextE |-> 3]),
    ([res |-> "ok",cacheV |-> FALSE,nodes |-> {1, 2, 3, 4},cacheR |-> FALSE,nextN |-> 5,edges |-> <<<<2, 1>>, <<2, 2>>>>,acyclic |-> FALSE,l |-> 115,eObj |-> <<1>>,nextE |-> 3]),
    ([res |-> "ok",cacheV |-> FALSE,nodes |-> {1, 2, 3, 4, 5},cacheR |-> FALSE,nextN |-> 6,edges |-> <<<<2, 1>>, <<2, 2>>>>,acyclic |-> FALSE,l |-> 116,eObj |-> <<1>>,nextE |-> 3]),
    ([res |-> "raise",cacheV |-> FALSE,nodes |-> {1, 2, 3, 4, 5},cacheR |-> FALSE,nextN |-> 6,edges |-> <<<<2, 1>>, <<2, 2>>>>,acyclic |-> FALSE,l |-> 117,eObj |-> <<1>>,nextE |-> 3]),
    ([res |-> "F",cacheV |-> FALSE,nodes |-> {1, 2, 3, 4, 5},cacheR |-> FALSE,nextN |-> 6,edges |-> <<<<2, 1>>, <<2, 2>>>>,acyclic |-> FALSE,l |-> 118,eObj |-> <<1>>,nextE |-> 3]),
    ([res |-> "ok",cacheV |-> FALSE,nodes |-> {1, 2, 3, 4, 5},cacheR |-> FALSE,nextN |-> 6,edges |-> <<<<2, 1>>, <<2, 2>>, <<2, 5>>>>,acyclic |-> FALSE,l |-> 119,eObj |-> <<1>>,nextE |-> 4]),
    ([res |-> "raise",cacheV |-> FALSE,nodes |-> {1, 2, 3, 4, 5},cacheR |-> FALSE,nextN |-> 6,edges |-> <<<<2, 1>>, <<2, 2>>, <<2, 5>>>>,acyclic |-> FALSE,l |-> 120,eObj |-> <<1>>,nextE |-> 4]),
    ([res |-> "ok",cacheV |-> FALSE,nodes |-> {1, 2, 3, 4, 5},cacheR |-> FALSE,nextN |-> 6,edges |-> <<<<2, 1>>, <<2, 2>>, <<2, 5>>, <<4, 2>>>>,acyclic |-> FALSE,l |-> 121,eObj |-> (1 :> 1 @@ 4 :> 2),nextE |-> 5]),
    ([res |-> "raise",cacheV |-> FALSE,nodes |-> {1, 2, 3, 4, 5},cacheR |-> FALSE,nextN |-> 6,edges |-> <<<<2, 1>>, <<2, 2>>, <<2, 5>>, <<4, 2>>>>,acyclic |-> FALSE,l |-> 122,eObj |-> (1 :> 1 @@ 4 :> 2),nextE |-> 5]),
    ([res |-> "F",cacheV |-> FALSE,nodes |-> {1, 2, 3, 4, 5},cacheR |-> FALSE,nextN |-> 6,edges |-> <<<<2, 1>>, <<2, 2>>, <<2, 5>>, <<4, 2>>>>,acyclic |-> FALSE,l |-> 123,eObj |-> (1 :> 1 @@ 4 :> 2),nextE |-> 5]),
    ([res |-> "raise",cacheV |-> FALSE,nodes |-> {1, 2, 3, 4, 5},cacheR |-> FALSE,nextN |-> 6,edges |-> <<<<2, 1>>, <<2, 2>>, <<2, 5>>, <<4, 2>>>>,acyclic |-> FALSE,l |-> 124,eObj |-> (1 :> 1 @@ 4 :> 2),nextE |-> 5]),
    ([res |-> "ok",cacheV |-> FALSE,nodes |-> {1, 2, 3, 5},cacheR |-> FALSE,nextN |-> 6,edges |-> <<<<2, 1>>, <<2, 2>>, <<2, 5>>>>,acyclic |-> FALSE,l |-> 125,eObj |-> <<1>>,nextE |-> 5]),
    ([res |-> "RT",cacheV |-> FALSE,nodes |-> {1, 2, 3, 5},cacheR |-> TRUE,nextN |-> 6,edges |-> <<<<2, 1>>, <<2, 2>>, <<2, 5>>>>,acyclic |-> FALSE,l |-> 126,eObj |-> <<1>>,nextE |-> 5]),
    ([res |-> "ok",cacheV |-> FALSE,nodes |-> {2, 3, 5},cacheR |-> FALSE,nextN |-> 6,edges |-> (2 :> <<2, 2>> @@ 3 :> <<2, 5>>),acyclic |-> FALSE,l |-> 127,eObj |-> <<>>,nextE |-> 5]),
    ([res |-> "ok",cacheV |-> FALSE,nodes |-> {2, 3, 5},cacheR |-> FALSE,nextN |-> 6,edges |-> (2 :> <<2, 2>> @@ 3 :> <<2, 5>> @@ 5 :> <<2, 3>>),acyclic |-> FALSE,l |-> 128,eObj |-> (5 :> 1),nextE |-> 6]),
    ([res |-> "raise",cacheV |-> FALSE,nodes |-> {2, 3, 5},cacheR |-> FALSE,nextN |-> 6,edges |-> (2 :> <<2, 2>> @@ 3 :> <<2, 5>> @@ 5 :> <<2, 3>>),acyclic |-> FALSE,l |-> 129,eObj |-> (5 :> 1),nextE |-> 6]),
    ([res |-> "F",cacheV |-> FALSE,nodes |-> {2, 3, 5},cacheR |-> FALSE,nextN |-> 6,edges |-> (2 :> <<2, 2>> @@ 3 :> <<2, 5>> @@ 5 :> <<2, 3>>),acyclic |-> FALSE,l |-> 130,eObj |-> (5 :> 1),nextE |-> 6]),
    ([res |-> "RT",cacheV |-> FALSE,nodes |-> {2, 3, 5},cacheR |-> FALSE,nextN |-> 6,edges |-> (2 :> <<2, 2>> @@ 3 :> <<2, 5>> @@ 5 :> <<2, 3>>),acyclic |-> FALSE,l |-> 131,eObj |-> (5 :> 1),nextE |-> 6]),
    ([res |-> "ok",cacheV |-> FALSE,nodes |-> {2, 3, 5},cacheR |-> FALSE,nextN |-> 6,edges |-> (2 :> <<2, 2>> @@ 3 :> <<2, 5>> @@ 5 :> <<2, 3>>),acyclic |-> FALSE,l |-> 132,eObj |-> (5 :> 1),nextE |-> 6]),
    ([res |-> "raise",cacheV |-> FALSE,nodes |-> {2, 3, 5},cacheR |-> FALSE,nextN |-> 6,edges |-> (2 :> <<2, 2>> @@ 3 :> <<2, 5>> @@ 5 :> <<2, 3>>),acyclic |-> FALSE,l |-> 133,eObj |-> (5 :> 1),nextE |-> 6]),
    ([res |-> "ok",cacheV |-> FALSE,nodes |-> {},cacheR |-> FALSE,nextN |-> 0,edges |-> <<>>,acyclic |-> TRUE,l |-> 134,eObj |-> <<>>,nextE |-> 0]),
    ([res |-> "ok",cacheV |-> FALSE,nodes |-> {0},cacheR |-> FALSE,nextN |-> 1,edges |-> <<>>,acyclic |-> TRUE,l |-> 135,eObj |-> <<>>,nextE |-> 0]),
    ([res |-> "ok",cacheV |-> FALSE,nodes |-> {0, 1},cacheR |-> FALSE,nextN |-> 2,edges |-> <<>>,acyclic |-> TRUE,l |-> 136,eObj |-> <<>>,nextE |-> 0]),
    ([res |-> "ok",cacheV |-> FALSE,nodes |-> {0, 1, 2},cacheR |-> FALSE,nextN |-> 3,edges |-> <<>>,acyclic |-> TRUE,l |-> 137,eObj |-> <<>>,nextE |-> 0]),
    ([res |-> "ok",cacheV |-> FALSE,nodes |-> {0, 1, 2, 3},cacheR |-> FALSE,nextN |-> 4,edges |-> <<>>,acyclic |-> TRUE,l |-> 138,eObj |-> <<>>,nextE |-> 0]),
    ([res |-> "ok",cacheV |-> FALSE,nodes |-> {0, 1, 2, 3, 4},cacheR |-> FALSE,nextN |-> 5,edges |-> <<>>,acyclic |-> TRUE,l |-> 139,eObj |-> <<>>,nextE |-> 0]),
    ([res |-> "ok",cacheV |-> FALSE,nodes |-> {0, 1, 2, 3, 4, 5},cacheR |-> FALSE,nextN |-> 6,edges |-> <<>>,acyclic |-> TRUE,l |-> 140,eObj |-> <<>>,nextE |-> 0]),
    ([res |-> "ok",cacheV |-> FALSE,nodes |-> {0, 1, 2, 3, 4, 5},cacheR |-> FALSE,nextN |-> 6,edges |-> (0 :> <<1, 0>>),acyclic |-> TRUE,l |-> 141,eObj |-> <<>>,nextE |-> 1]),
    ([res |-> "RF",cacheV |-> FALSE,nodes |-> {0, 1, 2, 3, 4, 5},cacheR |-> FALSE,nextN |-> 6,edges |-> (0 :> <<1, 0>>),acyclic |-> TRUE,l |-> 142,eObj |-> <<>>,nextE |-> 1]),
    ([res |-> "ok",cacheV |-> FALSE,nodes |-> {0, 1, 2, 3, 4, 5},cacheR |-> FALSE,nextN |-> 6,edges |-> (0 :> <<1, 0>> @@ 1 :> <<4, 3>>),acyclic |-> TRUE,l |-> 143,eObj |-> <<>>,nextE |-> 2]),
    ([res |-> "raise",cacheV |-> FALSE,nodes |-> {0, 1, 2, 3, 4, 5},cacheR |-> FALSE,nextN |-> 6,edges |-> (0 :> <<1, 0>> @@ 1 :> <<4, 3>>),acyclic |-> TRUE,l |-> 144,eObj |-> <<>>,nextE |-> 2]),
    ([res |-> "ok",cacheV |-> FALSE,nodes |-> {0, 1, 2, 3, 4, 5},cacheR |-> FALSE,nextN |-> 6,edges |-> (0 :> <<1, 0>> @@ 1 :> <<4, 3>> @@ 2 :> <<2, 0>>),acyclic |-> TRUE,l |-> 145,eObj |-> (2 :> 1),nextE |-> 3]),
    ([res |-> "T",cacheV |-> TRUE,nodes |-> {0, 1, 2, 3, 4, 5},cacheR |-> FALSE,nextN |-> 6,edges |-> (0 :> <<1, 0>> @@ 1 :> <<4, 3>> @@ 2 :> <<2, 0>>),acyclic |-> TRUE,l |-> 146,eObj |-> (2 :> 1),nextE |-> 3]),
    ([res |-> "ok",cacheV |-> FALSE,nodes |-> {0, 1, 2, 3, 4, 5},cacheR |-> FALSE,nextN |-> 6,edges |-> (0 :> <<1, 0>> @@ 1 :> <<4, 3>> @@ 2 :> <<2, 0>> @@ 3 :> <<2, 3>>),acyclic |-> TRUE,l |-> 147,eObj |-> (2 :> 1),nextE |-> 4]),
    ([res |-> "RF",cacheV |-> FALSE,nodes |-> {0, 1, 2, 3, 4, 5},cacheR |-> FALSE,nextN |-> 6,edges |-> (0 :> <<1, 0>> @@ 1 :> <<4, 3>> @@ 2 :> <<2, 0>> @@ 3 :> <<2, 3>>),acyclic |-> TRUE,l |-> 148,eObj |-> (2 :> 1),nextE |-> 4]),
    ([res |-> "T",cacheV |-> TRUE,nodes |-> {0, 1, 2, 3, 4, 5},cacheR |-> FALSE,nextN |-> 6,edges |-> (0 :> <<1, 0>> @@ 1 :> <<4, 3>> @@ 2 :> <<2, 0>> @@ 3 :> <<2, 3>>),acyclic |-> TRUE,l |-> 149,eObj |-> (2 :> 1),nextE |-> 4]),
    ([res |-> "RF",cacheV |-> TRUE,nodes |-> {0, 1, 2, 3, 4, 5},cacheR |-> FALSE,nextN |-> 6,edges |-> (0 :> <<1, 0>> @@ 1 :> <<4, 3>> @@ 2 :> <<2, 0>> @@ 3 :> <<2, 3>>),acyclic |-> TRUE,l |-> 150,eObj |-> (2 :> 1),nextE |-> 4]),
    ([res |-> "ok",cacheV |-> TRUE,nodes |-> {0, 1, 2, 3, 4, 5},cacheR |-> FALSE,nextN |-> 6,edges |-> (0 :> <<1, 0>> @@ 1 :> <<4, 3>> @@ 2 :> <<2, 0>> @@ 3 :> <<2, 3>>),acyclic |-> TRUE,l |-> 151,eObj |-> (2 :> 1),nextE |-> 4]),
    ([res |-> "ok",cacheV |-> TRUE,nodes |-> {0, 1, 2, 3, 4, 5},cacheR |-> FALSE,nextN |-> 6,edges |-> (0 :> <<1, 0>> @@ 1 :> <<4, 3>> @@ 2 :> <<2, 0>> @@ 3 :> <<2, 3>>),acyclic |-> TRUE,l |-> 152,eObj |-> (2 :> 1),nextE |-> 4]),
    ([res |-> "ok",cacheV |-> TRUE,nodes |-> {0, 1, 2, 3, 4, 5},cacheR |-> FALSE,nextN |-> 6,edges |-> (0 :> <<1, 0>> @@ 1 :> <<4, 3>> @@ 2 :> <<2, 0>> @@ 3 :> <<2, 3>>),acyclic |-> TRUE,l |-> 153,eObj |-> (2 :> 1),nextE |-> 4]),
    ([res |-> "ok",cacheV |-> TRUE,nodes |-> {0, 1, 2, 3, 4, 5},cacheR |-> FALSE,nextN |-> 6,edges |-> (0 :> <<1, 0>> @@ 1 :> <<4, 3>> @@ 2 :> <<2, 0>> @@ 3 :> <<2, 3>>),acyclic |-> TRUE,l |-> 154,eObj |-> (2 :> 1),nextE |-> 4]),
    ([res |-> "ok",cacheV |-> TRUE,nodes |-> {0, 1, 2, 3, 4, 5},cacheR |-> FALSE,nextN |-> 6,edges |-> (0 :> <<1, 0>> @@ 1 :> <<4, 3>> @@ 2 :> <<2, 0>> @@ 3 :> <<2, 3>>),acyclic |-> TRUE,l |-> 155,eObj |-> (2 :> 1),nextE |-> 4]),
    ([res |-> "ok",cacheV |-> TRUE,nodes |-> {0, 1, 2, 3, 4, 5},cacheR |-> FALSE,nextN |-> 6,edges |-> (0 :> <<1, 0>> @@ 1 :> <<4, 3>> @@ 2 :> <<2, 0>> @@ 3 :> <<2, 3>>),acyclic |-> TRUE,l |-> 156,eObj |-> (2 :> 1),nextE |-> 4]),
    ([res |-> "ok",cacheV |-> TRUE,nodes |-> {0, 1, 2, 3, 4, 5},cacheR |-> FALSE,nextN |-> 6,edges |-> (0 :> <<1, 0>> @@ 1 :> <<4, 3>> @@ 2 :> <<2, 0>> @@ 3 :> <<2, 3>>),acyclic |-> TRUE,l |-> 157,eObj |-> (2 :> 1),nextE |-> 4]),
    ([res |-> "ok",cacheV |-> TRUE,nodes |-> {0, 1, 2, 3, 4, 5},cacheR |-> FALSE,nextN |-> 6,edges |-> (0 :> <<1, 0>> @@ 1 :> <<4, 3>> @@ 2 :> <<2, 0>> @@ 3 :> <<2, 3>>),acyclic |-> TRUE,l |-> 158,eObj |-> (2 :> 1),nextE |-> 4]),
    ([res |-> "ok",cacheV |-> FALSE,nodes |-> {},cacheR |-> FALSE,nextN |-> 0,edges |-> <<>>,acyclic |-> TRUE,l |-> 159,eObj |-> <<>>,nextE |-> 0]),
    ([res |-> "raise",cacheV |-> FALSE,nodes |-> {},cacheR |-> FALSE,nextN |-> 0,edges |-> <<>>,acyclic |-> TRUE,l |-> 160,eObj |-> <<>>,nextE |-> 0]),
    ([res |-> "F",cacheV |-> TRUE,nodes |-> {},cacheR |-> FALSE,nextN |-> 0,edges |-> <<>>,acyclic |-> TRUE,l |-> 161,eObj |-> <<>>,nextE |-> 0]),
    ([res |-> "raise",cacheV |-> TRUE,nodes |-> {},cacheR |-> FALSE,nextN |-> 0,edges |-> <<>>,acyclic |-> TRUE,l |-> 162,eObj |-> <<>>,nextE |-> 0]),
    ([res |-> "ok",cacheV |-> FALSE,nodes |-> {0},cacheR |-> FALSE,nextN |-> 1,edges |-> <<>>,acyclic |-> TRUE,l |-> 163,eObj |-> <<>>,nextE |-> 0]),
    ([res |-> "RT",cacheV |-> FALSE,nodes |-> {0},cacheR |-> TRUE,nextN |-> 1,edges |-> <<>>,acyclic |-> TRUE,l |-> 164,eObj |-> <<>>,nextE |-> 0]),
    ([res |-> "ok",cacheV |-> FALSE,nodes |-> {0, 1},cacheR |-> FALSE,nextN |-> 2,edges |-> <<>>,acyclic |-> TRUE,l |-> 165,eObj |-> <<>>,nextE |-> 0]),
    ([res |-> "raise",cacheV |-> FALSE,nodes |-> {0, 1},cacheR |-> FALSE,nextN |-> 2,edges |-> <<>>,acyclic |-> TRUE,l |-> 166,eObj |-> <<>>,nextE |-> 0]),
    ([res |-> "ok",cacheV |-> FALSE,nodes |-> {0, 1},cacheR |-> FALSE,nextN |-> 2,edges |-> (0 :> <<0, 0>>),acyclic |-> FALSE,l |-> 167,eObj |-> <<>>,nextE |-> 1]),
    ([res |-> "F",cacheV |-> FALSE,nodes |-> {0, 1},cacheR |-> FALSE,nextN |-> 2,edges |-> (0 :> <<0, 0>>),acyclic |-> FALSE,l |-> 168,eObj |-> <<>>,nextE |-> 1]),
    ([res |-> "raise",cacheV |-> FALSE,nodes |-> {0, 1},cacheR |-> FALSE,nextN |-> 2,edges |-> (0 :> <<0, 0>>),acyclic |-> FALSE,l |-> 169,eObj |-> <<>>,nextE |-> 1]),
    ([res |-> "F",cacheV |-> FALSE,nodes |-> {0, 1},cacheR |-> FALSE,nextN |-> 2,edges |-> (0 :> <<0, 0>>),acyclic |-> FALSE,l |-> 170,eObj |-> <<>>,nextE |-> 1]),
    ([res |-> "raise",cacheV |-> FALSE,nodes |-> {0, 1},cacheR |-> FALSE,nextN |-> 2,edges |-> (0 :> <<0, 0>>),acyclic |-> FALSE,l |-> 171,eObj |-> <<>>,nextE |-> 1]),
    ([res |-> "ok",cacheV |-> FALSE,nodes |-> {0, 1},cacheR |-> FALSE,nextN |-> 2,edges |-> (0 :> <<0, 0>> @@ 1 :> <<0, 1>>),acyclic |-> FALSE,l |-> 172,eObj |-> <<1>>,nextE |-> 2]),
    ([res |-> "ok",cacheV |-> FALSE,nodes |-> {1},cacheR |-> FALSE,nextN |-> 2,edges |-> <<>>,acyclic |-> TRUE,l |-> 173,eObj |-> <<>>,nextE |-> 2]),
    ([res |-> "ok",cacheV |-> TRUE,nodes |-> {1},cacheR |-> FALSE,nextN |-> 2,edges |-> <<>>,acyclic |-> TRUE,l |-> 174,eObj |-> <<>>,nextE |-> 2]),
    ([res |-> "ok",cacheV |-> FALSE,nodes |-> {1, 2},cacheR |-> FALSE,nextN |-> 3,edges |-> <<>>,acyclic |-> TRUE,l |-> 175,eObj |-> <<>>,nextE |-> 2]),
    ([res |-> "ok",cacheV |-> FALSE,nodes |-> {1, 2, 3},cacheR |-> FALSE,nextN |-> 4,edges |-> <<>>,acyclic |-> TRUE,l |-> 176,eObj |-> <<>>,nextE |-> 2]),
    ([res |-> "ok",cacheV |-> FALSE,nodes |-> {2, 3},cacheR |-> FALSE,nextN |-> 4,edges |-> <<>>,acyclic |-> TRUE,l |-> 177,eObj |-> <<>>,nextE |-> 2]),
    ([res |-> "ok",cacheV |-> FALSE,nodes |-> {2, 3},cacheR |-> FALSE,nextN |-> 4,edges |-> <<>>,acyclic |-> TRUE,l |-> 178,eObj |-> <<>>,nextE |-> 2]),
    ([res |-> "ok",cacheV |-> FALSE,nodes |-> {2, 3},cacheR |-> FALSE,nextN |-> 4,edges |-> <<>>,acyclic |-> TRUE,l |-> 179,eObj |-> <<>>,nextE |-> 2]),
    ([res |-> "T",cacheV |-> TRUE,nodes |-> {2, 3},cacheR |-> FALSE,nextN |-> 4,edges |-> <<>>,acyclic |-> TRUE,l |-> 180,eObj |-> <<>>,nextE |-> 2]),
    ([res |-> "ok",cacheV |-> TRUE,nodes |-> {2, 3},cacheR |-> FALSE,nextN |-> 4,edges |-> <<>>,acyclic |-> TRUE,l |-> 181,eObj |-> <<>>,nextE |-> 2]),
    ([res |-> "ok",cacheV |-> TRUE,nodes |-> {2, 3},cacheR |-> FALSE,nextN |-> 4,edges |-> <<>>,acyclic |-> TRUE,l |-> 182,eObj |-> <<>>,nextE |-> 2]),
    ([res |-> "raise",cacheV |-> TRUE,nodes |-> {2, 3},cacheR |-> FALSE,nextN |-> 4,edges |-> <<>>,acyclic |-> TRUE,l |-> 183,eObj |-> <<>>,nextE |-> 2]),
    ([res |-> "ok",cacheV |-> FALSE,nodes |-> {3},cacheR |-> FALSE,nextN |-> 4,edges |-> <<>>,acyclic |-> TRUE,l |-> 184,eObj |-> <<>>,nextE |-> 2]),
    ([res |-> "ok",cacheV |-> FALSE,nodes |-> {3, 4},cacheR |-> FALSE,nextN |-> 5,edges |-> <<>>,acyclic |-> TRUE,l |-> 185,eObj |-> <<>>,nextE |-> 2]),
    ([res |-> "ok",cacheV |-> FALSE,nodes |-> {3, 4},cacheR |-> FALSE,nextN |-> 5,edges |-> (2 :> <<3, 3>>),acyclic |-> FALSE,l |-> 186,eObj |-> (2 :> 1),nextE |-> 3]),
    ([res |-> "ok",cacheV |-> FALSE,nodes |-> {3, 4, 5},cacheR |-> FALSE,nextN |-> 6,edges |-> (2 :> <<3, 3>>),acyclic |-> FALSE,l |-> 187,eObj |-> (2 :> 1),nextE |-> 3]),
    ([res |-> "raise",cacheV |-> FALSE,nodes |-> {3, 4, 5},cacheR |-> FALSE,nextN |-> 6,edges |-> (2 :> <<3, 3>>),acyclic |-> FALSE,l |-> 188,eObj |-> (2 :> 1),nextE |-> 3]),
    ([res |-> "ok",cacheV |-> FALSE,nodes |-> {3, 4, 5},cacheR |-> FALSE,nextN |-> 6,edges |-> (2 :> <<3, 3>> @@ 3 :> <<4, 5>>),acyclic |-> FALSE,l |-> 189,eObj |-> (2 :> 1),nextE |-> 4]),
    ([res |-> "F",cacheV |-> FALSE,nodes |-> {3, 4, 5},cacheR |-> FALSE,nextN |-> 6,edges |-> (2 :> <<3, 3>> @@ 3 :> <<4, 5>>),acyclic |-> FALSE,l |-> 190,eObj |-> (2 :> 1),nextE |-> 4]),
    ([res |-> "ok",cacheV |-> FALSE,nodes |-> {3, 4, 5},cacheR |-> FALSE,nextN |-> 6,edges |-> (2 :> <<3, 3>> @@ 3 :> <<4, 5>> @@ 4 :> <<4, 3>>),acyclic |-> FALSE,l |-> 191,eObj |-> (2 :> 1),nextE |-> 5]),
    ([res |-> "raise",cacheV |-> FALSE,nodes |-> {3, 4, 5},cacheR |-> FALSE,nextN |-> 6,edges |-> (2 :> <<3, 3>> @@ 3 :> <<4, 5>> @@ 4 :> <<4, 3>>),acyclic |-> FALSE,l |-> 192,eObj |-> (2 :> 1),nextE |-> 5]),
    ([res |-> "ok",cacheV |-> FALSE,nodes |-> {3, 4, 5},cacheR |-> FALSE,nextN |-> 6,edges |-> (2 :> <<3, 3>> @@ 3 :> <<4, 5>> @@ 4 :> <<4, 3>> @@ 5 :> <<3, 4>>),acyclic |-> FALSE,l |-> 193,eObj |-> (2 :> 1 @@ 5 :> 2),nextE |-> 6]),
    ([res |-> "F",cacheV |-> FALSE,nodes |-> {3, 4, 5},cacheR |-> FALSE,nextN |-> 6,edges |-> (2 :> <<3, 3>> @@ 3 :> <<4, 5>> @@ 4 :> <<4, 3>> @@ 5 :> <<3, 4>>),acyclic |-> FALSE,l |-> 194,eObj |-> (2 :> 1 @@ 5 :> 2),nextE |-> 6]),
    ([res |-> "F",cacheV |-> FALSE,nodes |-> {3, 4, 5},cacheR |-> FALSE,nextN |-> 6,edges |-> (2 :> <<3, 3>> @@ 3 :> <<4, 5>> @@ 4 :> <<4, 3>> @@ 5 :> <<3, 4>>),acyclic |-> FALSE,l |-> 195,eObj |-> (2 :> 1 @@ 5 :> 2),nextE |-> 6]),
    ([res |-> "raise",cacheV |-> FALSE,nodes |-> {3, 4, 5},cacheR |-> FALSE,nextN |-> 6,edges |-> (2 :> <<3, 3>> @@ 3 :> <<4, 5>> @@ 4 :> <<4, 3>> @@ 5 :> <<3, 4>>),acyclic |-> FALSE,l |-> 196,eObj |-> (2 :> 1 @@ 5 :> 2),nextE |-> 6]),
    ([res |-> "raise",cacheV |-> FALSE,nodes |-> {3, 4, 5},cacheR |-> FALSE,nextN |-> 6,edges |-> (2 :> <<3, 3>> @@ 3 :> <<4, 5>> @@ 4 :> <<4, 3>> @@ 5 :> <<3, 4>>),acyclic |-> FALSE,l |-> 197,eObj |-> (2 :> 1 @@ 5 :> 2),nextE |-> 6]),
    ([res |-> "raise",cacheV |-> FALSE,nodes |-> {3, 4, 5},cacheR |-> FALSE,nextN |-> 6,edges |-> (2 :> <<3, 3>> @@ 3 :> <<4, 5>> @@ 4 :> <<4, 3>> @@ 5 :> <<3, 4>>),acyclic |-> FALSE,l |-> 198,eObj |-> (2 :> 1 @@ 5 :> 2),nextE |-> 6]),
    ([res |-> "ok",cacheV |-> FALSE,nodes |-> {3, 5},cacheR |-> FALSE,nextN |-> 6,edges |-> (2 :> <<3, 3>>),acyclic |-> FALSE,l |-> 199,eObj |-> (2 :> 1),nextE |-> 6]),
    ([res |-> "F",cacheV |-> FALSE,nodes |-> {3, 5},cacheR |-> FALSE,nextN |-> 6,edges |-> (2 :> <<3, 3>>),acyclic |-> FALSE,l |-> 200,eObj |-> (2 :> 1),nextE |-> 6]),
    ([res |-> "RT",cacheV |-> FALSE,nodes |-> {3, 5},cacheR |-> TRUE,nextN |-> 6,edges |-> (2 :> <<3, 3>>),acyclic |-> FALSE,l |-> 201,eObj |-> (2 :> 1),nextE |-> 6]),
    ([res |-> "ok",cacheV |-> FALSE,nodes |-> {3, 5},cacheR |-> TRUE,nextN |-> 6,edges |-> (2 :> <<3, 3>>),acyclic |-> FALSE,l |-> 202,eObj |-> (2 :> 1),nextE |-> 6]),
    ([res |-> "raise",cacheV |-> FALSE,nodes |-> {3, 5},cacheR |-> TRUE,nextN |-> 6,edges |-> (2 :> <<3, 3>>),acyclic |-> FALSE,l |-> 203,eObj |-> (2 :> 1),nextE |-> 6]),
    ([res |-> "ok",cacheV |-> FALSE,nodes |-> {},cacheR |-> FALSE,nextN |-> 0,edges |-> <<>>,acyclic |-> TRUE,l |-> 204,eObj |-> <<>>,nextE |-> 0]),
    ([res |-> "ok",cacheV |-> FALSE,nodes |-> {0},cacheR |-> FALSE,nextN |-> 1,edges |-> <<>>,acyclic |-> TRUE,l |-> 205,eObj |-> <<>>,nextE |-> 0]),
    ([res |-> "ok",cacheV |-> FALSE,nodes |-> {0, 1},cacheR |-> FALSE,nextN |-> 2,edges |-> <<>>,acyclic |-> TRUE,l |-> 206,eObj |-> <<>>,nextE |-> 0]),
    ([res |-> "ok",cacheV |-> FALSE,nodes |-> {0, 1, 2},cacheR |-> FALSE,nextN |-> 3,edges |-> <<>>,acyclic |-> TRUE,l |-> 207,eObj |-> <<>>,nextE |-> 0]),
    ([res |-> "ok",cacheV |-> FALSE,nodes |-> {0, 1, 2, 3},cacheR |-> FALSE,nextN |-> 4,edges |-> <<>>,acyclic |-> TRUE,l |-> 208,eObj |-> <<>>,nextE |-> 0]),
    ([res |-> "ok",cacheV |-> FALSE,nodes |-> {0, 1, 2, 3, 4},cacheR |-> FALSE,nextN |-> 5,edges |-> <<>>,acyclic |-> TRUE,l |-> 209,eObj |-> <<>>,nextE |-> 0]),
    ([res |-> "ok",cacheV |-> FALSE,nodes |-> {0, 1, 2, 3, 4, 5},cacheR |-> FALSE,nextN |-> 6,edges |-> <<>>,acyclic |-> TRUE,l |-> 210,eObj |-> <<>>,nextE |-> 0]),
    ([res |-> "ok",cacheV |-> FALSE,nodes |-> {0, 1, 2, 3, 4, 5},cacheR |-> FALSE,nextN |-> 6,edges |-> (0 :> <<3, 4>>),acyclic |-> TRUE,l |-> 211,eObj |-> (0 :> 1),nextE |-> 1]),
    ([res |-> "raise",cacheV |-> FALSE,nodes |-> {0, 1, 2, 3, 4, 5},cacheR |-> FALSE,nextN |-> 6,edges |-> (0 :> <<3, 4>>),acyclic |-> TRUE,l |-> 212,eObj |-> (0 :> 1),nextE |-> 1]),
    ([res |-> "ok",cacheV |-> FALSE,nodes |-> {0, 1, 2, 3, 4, 5},cacheR |-> FALSE,nextN |-> 6,edges |-> (0 :> <<3, 4>> @@ 1 :> <<2, 1>>),acyclic |-> TRUE,l |-> 213,eObj |-> (0 :> 1 @@ 1 :> 2),nextE |-> 2]),
    ([res |-> "ok",cacheV |-> FALSE,nodes |-> {0, 1, 2, 3, 4, 5},cacheR |-> FALSE,nextN |-> 6,edges |-> (0 :> <<3, 4>> @@ 1 :> <<2, 1>> @@ 2 :> <<5, 1>>),acyclic |-> TRUE,l |-> 214,eObj |-> (0 :> 1 @@ 1 :> 2),nextE |-> 3]),
    ([res |-> "T",cacheV |-> TRUE,nodes |-> {0, 1, 2, 3, 4, 5},cacheR |-> FALSE,nextN |-> 6,edges |-> (0 :> <<3, 4>> @@ 1 :> <<2, 1>> @@ 2 :> <<5, 1>>),acyclic |-> TRUE,l |-> 215,eObj |-> (0 :> 1 @@ 1 :> 2),nextE |-> 3]),
    ([res |-> "RF",cacheV |-> TRUE,nodes |-> {0, 1, 2, 3, 4, 5},cacheR |-> FALSE,nextN |-> 6,edges |-> (0 :> <<3, 4>> @@ 1 :> <<2, 1>> @@ 2 :> <<5, 1>>),acyclic |-> TRUE,l |-> 216,eObj |-> (0 :> 1 @@ 1 :> 2),nextE |-> 3]),
    ([res |-> "ok",cacheV |-> TRUE,nodes |-> {0, 1, 2, 3, 4, 5},cacheR |-> FALSE,nextN |-> 6,edges |-> (0 :> <<3, 4>> @@ 1 :> <<2, 1>> @@ 2 :> <<5, 1>>),acyclic |-> TRUE,l |-> 217,eObj |-> (0 :> 1 @@ 1 :> 2),nextE |-> 3]),
    ([res |-> "ok",cacheV |-> TRUE,nodes |-> {0, 1, 2, 3, 4, 5},cacheR |-> FALSE,nextN |-> 6,edges |-> (0 :> <<3, 4>> @@ 1 :> <<2, 1>> @@ 2 :> <<5, 1>>),acyclic |-> TRUE,l |-> 218,eObj |-> (0 :> 1 @@ 1 :> 2),nextE |-> 3]),
    ([res |-> "ok",cacheV |-> TRUE,nodes |-> {0, 1, 2, 3, 4, 5},cacheR |-> FALSE,nextN |-> 6,edges |-> (0 :> <<3, 4>> @@ 1 :> <<2, 1>> @@ 2 :> <<5, 1>>),acyclic |-> TRUE,l |-> 219,eObj |-> (0 :> 1 @@ 1 :> 2),nextE |-> 3]),
    ([res |-> "ok",cacheV |-> TRUE,nodes |-> {0, 1, 2, 3, 4, 5},cacheR |-> FALSE,nextN |-> 6,edges |-> (0 :> <<3, 4>> @@ 1 :> <<2, 1>> @@ 2 :> <<5, 1>>),acyclic |-> TRUE,l |-> 220,eObj |-> (0 :> 1 @@ 1 :> 2),nextE |-> 3]),
    ([res |-> "ok",cacheV |-> TRUE,nodes |-> {0, 1, 2, 3, 4, 5},cacheR |-> FALSE,nextN |-> 6,edges |-> (0 :> <<3, 4>> @@ 1 :> <<2, 1>> @@ 2 :> <<5, 1>>),acyclic |-> TRUE,l |-> 221,eObj |-> (0 :> 1 @@ 1 :> 2),nextE |-> 3]),
    ([res |-> "ok",cacheV |-> TRUE,nodes |-> {0, 1, 2, 3, 4, 5},cacheR |-> FALSE,nextN |-> 6,edges |-> (0 :> <<3, 4>> @@ 1 :> <<2, 1>> @@ 2 :> <<5, 1>>),acyclic |-> TRUE,l |-> 222,eObj |-> (0 :> 1 @@ 1 :> 2),nextE |-> 3]),
    ([res |-> "ok",cacheV |-> TRUE,nodes |-> {0, 1, 2, 3, 4, 5},cacheR |-> FALSE,nextN |-> 6,edges |-> (0 :> <<3, 4>> @@ 1 :> <<2, 1>> @@ 2 :> <<5, 1>>),acyclic |-> TRUE,l |-> 223,eObj |-> (0 :> 1 @@ 1 :> 2),nextE |-> 3]),
    ([res |-> "ok",cacheV |-> TRUE,nodes |-> {0, 1, 2, 3, 4, 5},cacheR |-> FALSE,nextN |-> 6,edges |-> (0 :> <<3, 4>> @@ 1 :> <<2, 1>> @@ 2 :> <<5, 1>>),acyclic |-> TRUE,l |-> 224,eObj |-> (0 :> 1 @@ 1 :> 2),nextE |-> 3]),
    ([res |-> "ok",cacheV |-> FALSE,nodes |-> {},cacheR |-> FALSE,nextN |-> 0,edges |-> <<>>,acyclic |-> TRUE,l |-> 225,eObj |-> <<>>,nextE |-> 0]),
    ([res |-> "ok",cacheV |-> FALSE,nodes |-> {},cacheR |-> FALSE,nextN |-> 0,edges |-> <<>>,acyclic |-> TRUE,l |-> 226,eObj |-> <<>>,nextE |-> 0]),
    ([res |-> "ok",cacheV |-> FALSE,nodes |-> {},cacheR |-> FALSE,nextN |-> 0,edges |-> <<>>,acyclic |-> TRUE,l |-> 227,eObj |-> <<>>,nextE |-> 0]),
    ([res |-> "RT",cacheV |-> FALSE,nodes |-> {},cacheR |-> FALSE,nextN |-> 0,edges |-> <<>>,acyclic |-> TRUE,l |-> 228,eObj |-> <<>>,nextE |-> 0]),
    ([res |-> "raise",cacheV |-> FALSE,nodes |-> {},cacheR |-> FALSE,nextN |-> 0,edges |-> <<>>,acyclic |-> TRUE,l |-> 229,eObj |-> <<>>,nextE |-> 0]),
    ([res |-> "F",cacheV |-> TRUE,nodes |-> {},cacheR |-> FALSE,nextN |-> 0,edges |-> <<>>,acyclic |-> TRUE,l |-> 230,eObj |-> <<>>,nextE |-> 0]),
    ([res |-> "F",cacheV |-> TRUE,nodes |-> {},cacheR |-> FALSE,nextN |-> 0,edges |-> <<>>,acyclic |-> TRUE,l |-> 231,eObj |-> <<>>,nextE |-> 0]),
    ([res |-> "ok",cacheV |-> FALSE,nodes |-> {0},cacheR |-> FALSE,nextN |-> 1,edges |-> <<>>,acyclic |-> TRUE,l |-> 232,eObj |-> <<>>,nextE |-> 0]),
    ([res |-> "ok",cacheV |-> FALSE,nodes |-> {0},cacheR |-> FALSE,nextN |-> 1,edges |-> (0 :> <<0, 0>>),acyclic |-> FALSE,l |-> 233,eObj |-> <<>>,nextE |-> 1]),
    ([res |-> "raise",cacheV |-> FALSE,nodes |-> {0},cacheR |-> FALSE,nextN |-> 1,edges |-> (0 :> <<0, 0>>),acyclic |-> FALSE,l |-> 234,eObj |-> <<>>,nextE |-> 1]),
    ([res |-> "ok",cacheV |-> FALSE,nodes |-> {},cacheR |-> FALSE,nextN |-> 1,edges |-> <<>>,acyclic |-> TRUE,l |-> 235,eObj |-> <<>>,nextE |-> 1]),
    ([res |-> "raise",cacheV |-> FALSE,nodes |-> {},cacheR |-> FALSE,nextN |-> 1,edges |-> <<>>,acyclic |-> TRUE,l |-> 236,eObj |-> <<>>,nextE |-> 1]),
    ([res |-> "ok",cacheV |-> FALSE,nodes |-> {},cacheR |-> FALSE,nextN |-> 1,edges |-> <<>>,acyclic |-> TRUE,l |-> 237,eObj |-> <<>>,nextE |-> 1]),
    ([res |-> "ok",cacheV |-> FALSE,nodes |-> {},cacheR |-> FALSE,nextN |-> 1,edges |-> <<>>,acyclic |-> TRUE,l |-> 238,eObj |-> <<>>,nextE |-> 1]),
    ([res |-> "RT",cacheV |-> FALSE,nodes |-> {},cacheR |-> FALSE,nextN |-> 1,edges |-> <<>>,acyclic |-> TRUE,l |-> 239,eObj |-> <<>>,nextE |-> 1]),
    ([res |-> "RT",cacheV |-> FALSE,nodes |-> {},cacheR |-> FALSE,nextN |-> 1,edges |-> <<>>,acyclic |-> TRUE,l |-> 240,eObj |-> <<>>,nextE |-> 1]),
    ([res |-> "raise",cacheV |-> FALSE,nodes |-> {},cacheR |-> FALSE,nextN |-> 1,edges |-> <<>>,acyclic |-> TRUE,l |-> 241,eObj |-> <<>>,nextE |-> 1]),
    ([res |-> "raise",cacheV |-> FALSE,nodes |-> {},cacheR |-> FALSE,nextN |-> 1,edges |-> <<>>,acyclic |-> TRUE,l |-> 242,eObj |-> <<>>,nextE |-> 1]),
    ([res |-> "raise",cacheV |-> FALSE,nodes |-> {},cacheR |-> FALSE,nextN |-> 1,edges |-> <<>>,acyclic |-> TRUE,l |-> 243,eObj |-> <<>>,nextE |-> 1]),
    ([res |-> "raise",cacheV |-> FALSE,nodes |-> {},cacheR |-> FALSE,nextN |-> 1,edges |-> <<>>,acyclic |-> TRUE,l |-> 244,eObj |-> <<>>,nextE |-> 1]),
    ([res |-> "F",cacheV |-> TRUE,nodes |-> {},cacheR |-> FALSE,nextN |-> 1,edges |-> <<>>,acyclic |-> TRUE,l |-> 245,eObj |-> <<>>,nextE |-> 1]),
    ([res |-> "raise",cacheV |-> TRUE,nodes |-> {},cacheR |-> FALSE,nextN |-> 1,edges |-> <<>>,acyclic |-> TRUE,l |-> 246,eObj |-> <<>>,nextE |-> 1]),
    ([res |-> "raise",cacheV |-> TRUE,nodes |-> {},cacheR |-> FALSE,nextN |-> 1,edges |-> <<>>,acyclic |-> TRUE,l |-> 247,eObj |-> <<>>,nextE |-> 1]),
    ([res |-> "raise",cacheV |-> TRUE,nodes |-> {},cacheR |-> FALSE,nextN |-> 1,edges |-> <<>>,acyclic |-> TRUE,l |-> 248,eObj |-> <<>>,nextE |-> 1]),
    ([res |-> "ok",cacheV |-> FALSE,nodes |-> {1},cacheR |-> FALSE,nextN |-> 2,edges |-> <<>>,acyclic |-> TRUE,l |-> 249,eObj |-> <<>>,nextE |-> 1]),
    ([res |-> "raise",cacheV |-> FALSE,nodes |-> {1},cacheR |-> FALSE,nextN |-> 2,edges |-> <<>>,acyclic |-> TRUE,l |-> 250,eObj |-> <<>>,nextE |-> 1]),
    ([res |-> "ok",cacheV |-> FALSE,nodes |-> {1},cacheR |-> FALSE,nextN |-> 2,edges |-> <<<<1, 1>>>>,acyclic |-> FALSE,l |-> 251,eObj |-> <<1>>,nextE |-> 2]),
    ([res |-> "raise",cacheV |-> FALSE,nodes |-> {1},cacheR |-> FALSE,nextN |-> 2,edges |-> <<<<1, 1>>>>,acyclic |-> FALSE,l |-> 252,eObj |-> <<1>>,nextE |-> 2]),
    ([res |-> "ok",cacheV |-> FALSE,nodes |-> {1, 2},cacheR |-> FALSE,nextN |-> 3,edges |-> <<<<1, 1>>>>,acyclic |-> FALSE,l |-> 253,eObj |-> <<1>>,nextE |-> 2]),
    ([res |-> "F",cacheV |-> FALSE,nodes |-> {1, 2},cacheR |-> FALSE,nextN |-> 3,edges |-> <<<<1, 1>>>>,acyclic |-> FALSE,l |-> 254,eObj |-> <<1>>,nextE |-> 2]),
    ([res |-> "ok",cacheV |-> FALSE,nodes |-> {1, 2},cacheR |-> FALSE,nextN |-> 3,edges |-> <<<<1, 1>>, <<1, 2>>>>,acyclic |-> FALSE,l |-> 255,eObj |-> <<1, 2>>,nextE |-> 3]),
    ([res |-> "raise",cacheV |-> FALSE,nodes |-> {1, 2},cacheR |-> FALSE,nextN |-> 3,edges |-> <<<<1, 1>>, <<1, 2>>>>,acyclic |-> FALSE,l |-> 256,eObj |-> <<1, 2>>,nextE |-> 3]),
    ([res |-> "ok",cacheV |-> FALSE,nodes |-> {1, 2},cacheR |-> FALSE,nextN |-> 3,edges |-> <<<<1, 1>>>>,acyclic |-> FALSE,l |-> 257,eObj |-> <<1>>,nextE |-> 3]),
    ([res |-> "RT",cacheV |-> FALSE,nodes |-> {1, 2},cacheR |-> TRUE,nextN |-> 3,edges |-> <<<<1, 1>>>>,acyclic |-> FALSE,l |-> 258,eObj |-> <<1>>,nextE |-> 3]),
    ([res |-> "F",cacheV |-> FALSE,nodes |-> {1, 2},cacheR |-> TRUE,nextN |-> 3,edges |-> <<<<1, 1>>>>,acyclic |-> FALSE,l |-> 259,eObj |-> <<1>>,nextE |-> 3]),
    ([res |-> "raise",cacheV |-> FALSE,nodes |-> {1, 2},cacheR |-> TRUE,nextN |-> 3,edges |-> <<<<1, 1>>>>,acyclic |-> FALSE,l |-> 260,eObj |-> <<1>>,nextE |-> 3]),
    ([res |-> "ok",cacheV |-> FALSE,nodes |-> {1, 2},cacheR |-> FALSE,nextN |-> 3,edges |-> (1 :> <<1, 1>> @@ 3 :> <<2, 2>>),acyclic |-> FALSE,l |-> 261,eObj |-> (1 :> 1 @@ 3 :> 2),nextE |-> 4]),
    ([res |-> "ok",cacheV |-> FALSE,nodes |-> {1, 2},cacheR |-> FALSE,nextN |-> 3,edges |-> (3 :> <<2, 2>>),acyclic |-> FALSE,l |-> 262,eObj |-> (3 :> 2),nextE |-> 4]),
    ([res |-> "F",cacheV |-> FALSE,nodes |-> {1, 2},cacheR |-> FALSE,nextN |-> 3,edges |-> (3 :> <<2, 2>>),acyclic |-> FALSE,l |-> 263,eObj |-> (3 :> 2),nextE |-> 4]),
    ([res |-> "ok",cacheV |-> FALSE,nodes |-> {1, 2},cacheR |-> FALSE,nextN |-> 3,edges |-> (3 :> <<2, 2>>),acyclic |-> FALSE,l |-> 264,eObj |-> (3 :> 2),nextE |-> 4]),
    ([res |-> "raise",cacheV |-> FALSE,nodes |-> {1, 2},cacheR |-> FALSE,nextN |-> 3,edges |-> (3 :> <<2, 2>>),acyclic |-> FALSE,l |-> 265,eObj |-> (3 :> 2),nextE |-> 4]),
    ([res |-> "ok",cacheV |-> FALSE,nodes |-> {1, 2},cacheR |-> FALSE,nextN |-> 3,edges |-> (3 :> <<2, 2>> @@ 4 :> <<1, 2>>),acyclic |-> FALSE,l |-> 266,eObj |-> (3 :> 2),nextE |-> 5]),
    ([res |-> "ok",cacheV |-> FALSE,nodes |-> {1, 2},cacheR |-> FALSE,nextN |-> 3,edges |-> (3 :> <<2, 2>> @@ 4 :> <<1, 2>> @@ 5 :> <<1, 1>>),acyclic |-> FALSE,l |-> 267,eObj |-> (3 :> 2),nextE |-> 6]),
    ([res |-> "F",cacheV |-> FALSE,nodes |-> {1, 2},cacheR |-> FALSE,nextN |-> 3,edges |-> (3 :> <<2, 2>> @@ 4 :> <<1, 2>> @@ 5 :> <<1, 1>>),acyclic |-> FALSE,l |-> 268,eObj |-> (3 :> 2),nextE |-> 6]),
    ([res |-> "RT",cacheV |-> FALSE,nodes |-> {1, 2},cacheR |-> FALSE,nextN |-> 3,edges |-> (3 :> <<2, 2>> @@ 4 :> <<1, 2>> @@ 5 :> <<1, 1>>),acyclic |-> FALSE,l |-> 269,eObj |-> (3 :> 2),nextE |-> 6]),
    ([res |-> "ok",cacheV |-> FALSE,nodes |-> {1, 2},cacheR |-> FALSE,nextN |-> 3,edges |-> (3 :> <<2, 2>> @@ 4 :> <<1, 2>> @@ 5 :> <<1, 1>>),acyclic |-> FALSE,l |-> 270,eObj |-> (3 :> 2),nextE |-> 6]),
    ([res |-> "raise",cacheV |-> FALSE,nodes |-> {1, 2},cacheR |-> FALSE,nextN |-> 3,edges |-> (3 :> <<2, 2>> @@ 4 :> <<1, 2>> @@ 5 :> <<1, 1>>),acyclic |-> FALSE,l |-> 271,eObj |-> (3 :> 2),nextE |-> 6]),
    ([res |-> "ok",cacheV |-> FALSE,nodes |-> {},cacheR |-> FALSE,nextN |-> 0,edges |-> <<>>,acyclic |-> TRUE,l |-> 272,eObj |-> <<>>,nextE |-> 0]),
    ([res |-> "ok",cacheV |-> FALSE,nodes |-> {0},cacheR |-> FALSE,nextN |-> 1,edges |-> <<>>,acyclic |-> TRUE,l |-> 273,eObj |-> <<>>,nextE |-> 0]),
    ([res |-> "ok",cacheV |-> FALSE,nodes |-> {0, 1},cacheR |-> FALSE,nextN |-> 2,edges |-> <<>>,acyclic |-> TRUE,l |-> 274,eObj |-> <<>>,nextE |-> 0]),
    ([res |-> "ok",cacheV |-> FALSE,nodes |-> {0, 1, 2},cacheR |-> FALSE,nextN |-> 3,edges |-> <<>>,acyclic |-> TRUE,l |-> 275,eObj |-> <<>>,nextE |-> 0]),
    ([res |-> "ok",cacheV |-> FALSE,nodes |-> {0, 1, 2, 3},cacheR |-> FALSE,nextN |-> 4,edges |-> <<>>,acyclic |-> TRUE,l |-> 276,eObj |-> <<>>,nextE |-> 0]),
    ([res |-> "ok",cacheV |-> FALSE,nodes |-> {0, 1, 2, 3, 4},cacheR |-> FALSE,nextN |-> 5,edges |-> <<>>,acyclic |-> TRUE,l |-> 277,eObj |-> <<>>,nextE |-> 0]),
    ([res |-> "ok",cacheV |-> FALSE,nodes |-> {0, 1, 2, 3, 4},cacheR |-> FALSE,nextN |-> 5,edges |-> (0 :> <<2, 4>>),acyclic |-> TRUE,l |-> 278,eObj |-> <<>>,nextE |-> 1]),
    ([res |-> "T",cacheV |-> TRUE,nodes |-> {0, 1, 2, 3, 4},cacheR |-> FALSE,nextN |-> 5,edges |-> (0 :> <<2, 4>>),acyclic |-> TRUE,l |-> 279,eObj |-> <<>>,nextE |-> 1]),
    ([res |-> "ok",cacheV |-> FALSE,nodes |-> {0, 1, 2, 3, 4},cacheR |-> FALSE,nextN |-> 5,edges |-> (0 :> <<2, 4>> @@ 1 :> <<3, 2>>),acyclic |-> TRUE,l |-> 280,eObj |-> <<>>,nextE |-> 2]),
    ([res |-> "RF",cacheV |-> FALSE,nodes |-> {0, 1, 2, 3, 4},cacheR |-> FALSE,nextN |-> 5,edges |-> (0 :> <<2, 4>> @@ 1 :> <<3, 2>>),acyclic |-> TRUE,l |-> 281,eObj |-> <<>>,nextE |-> 2]),
    ([res |-> "ok",cacheV |-> FALSE,nodes |-> {0, 1, 2, 3, 4},cacheR |-> FALSE,nextN |-> 5,edges |-> (0 :> <<2, 4>> @@ 1 :> <<3, 2>> @@ 2 :> <<3, 0>>),acyclic |-> TRUE,l |-> 282,eObj |-> <<>>,nextE |-> 3]),
    ([res |-> "ok",cacheV |-> FALSE,nodes |-> {0, 1, 2, 3, 4},cacheR |-> FALSE,nextN |-> 5,edges |-> (0 :> <<2, 4>> @@ 1 :> <<3, 2>> @@ 2 :> <<3, 0>> @@ 3 :> <<3, 1>>),acyclic |-> TRUE,l |-> 283,eObj |-> (3 :> 1),nextE |-> 4]),
    ([res |-> "raise",cacheV |-> FALSE,nodes |-> {0, 1, 2, 3, 4},cacheR |-> FALSE,nextN |-> 5,edges |-> (0 :> <<2, 4>> @@ 1 :> <<3, 2>> @@ 2 :> <<3, 0>> @@ 3 :> <<3, 1>>),acyclic |-> TRUE,l |-> 284,eObj |-> (3 :> 1),nextE |-> 4]),
    ([res |-> "ok",cacheV |-> FALSE,nodes |-> {0, 1, 2, 3, 4},cacheR |-> FALSE,nextN |-> 5,edges |-> (0 :> <<2, 4>> @@ 1 :> <<3, 2>> @@ 2 :> <<3, 0>> @@ 3 :> <<3, 1>> @@ 4 :> <<4, 2>>),acyclic |-> FALSE,l |-> 285,eObj |-> (3 :> 1 @@ 4 :> 2),nextE |-> 5]),
    ([res |-> "ok",cacheV |-> FALSE,nodes |-> {0, 1, 2, 3, 4},cacheR |-> FALSE,nextN |-> 5,edges |-> (0 :> <<2, 4>> @@ 1 :> <<3, 2>> @@ 2 :> <<3, 0>> @@ 3 :> <<3, 1>> @@ 4 :> <<4, 2>> @@ 5 :> <<1, 0>>),acyclic |-> FALSE,l |-> 286,eObj |-> (3 :> 1 @@ 4 :> 2),nextE |-> 6]),
    ([res |-> "ok",cacheV |-> FALSE,nodes |-> {0, 1, 2, 3, 4},cacheR |-> FALSE,nextN |-> 5,edges |-> (0 :> <<2, 4>> @@ 1 :> <<3, 2>> @@ 2 :> <<3, 0>> @@ 3 :> <<3, 1>> @@ 4 :> <<4, 2>> @@ 5 :> <<1, 0>> @@ 6 :> <<0, 2>>),acyclic |-> FALSE,l |-> 287,eObj |-> (3 :> 1 @@ 4 :> 2),nextE |-> 7]),
    ([res |-> "F",cacheV |-> FALSE,nodes |-> {0, 1, 2, 3, 4},cacheR |-> FALSE,nextN |-> 5,edges |-> (0 :> <<2, 4>> @@ 1 :> <<3, 2>> @@ 2 :> <<3, 0>> @@ 3 :> <<3, 1>> @@ 4 :> <<4, 2>> @@ 5 :> <<1, 0>> @@ 6 :> <<0, 2>>),acyclic |-> FALSE,l |-> 288,eObj |-> (3 :> 1 @@ 4 :> 2),nextE |-> 7]),
    ([res |-> "RT",cacheV |-> FALSE,nodes |-> {0, 1, 2, 3, 4},cacheR |-> TRUE,nextN |-> 5,edges |-> (0 :> <<2, 4>> @@ 1 :> <<3, 2>> @@ 2 :> <<3, 0>> @@ 3 :> <<3, 1>> @@ 4 :> <<4, 2>> @@ 5 :> <<1, 0>> @@ 6 :> <<0, 2>>),acyclic |-> FALSE,l |-> 289,eObj |-> (3 :> 1 @@ 4 :> 2),nextE |-> 7]),
    ([res |-> "raise",cacheV |-> FALSE,nodes |-> {0, 1, 2, 3, 4},cacheR |-> TRUE,nextN |-> 5,edges |-> (0 :> <<2, 4>> @@ 1 :> <<3, 2>> @@ 2 :> <<3, 0>> @@ 3 :> <<3, 1>> @@ 4 :> <<4, 2>> @@ 5 :> <<1, 0>> @@ 6 :> <<0, 2>>),acyclic |-> FALSE,l |-> 290,eObj |-> (3 :> 1 @@ 4 :> 2),nextE |-> 7]),
    ([res |-> "F",cacheV |-> FALSE,nodes |-> {0, 1, 2, 3, 4},cacheR |-> TRUE,nextN |-> 5,edges |-> (0 :> <<2, 4>> @@ 1 :> <<3, 2>> @@ 2 :> <<3, 0>> @@ 3 :> <<3, 1>> @@ 4 :> <<4, 2>> @@ 5 :> <<1, 0>> @@ 6 :> <<0, 2>>),acyclic |-> FALSE,l |-> 291,eObj |-> (3 :> 1 @@ 4 :> 2),nextE |-> 7]),
    ([res |-> "RT",cacheV |-> FALSE,nodes |-> {0, 1, 2, 3, 4},cacheR |-> TRUE,nextN |-> 5,edges |-> (0 :> <<2, 4>> @@ 1 :> <<3, 2>> @@ 2 :> <<3, 0>> @@ 3 :> <<3, 1>> @@ 4 :> <<4, 2>> @@ 5 :> <<1, 0>> @@ 6 :> <<0, 2>>),acyclic |-> FALSE,l |-> 292,eObj |-> (3 :> 1 @@ 4 :> 2),nextE |-> 7]),
    ([res |-> "ok",cacheV |-> FALSE,nodes |-> {0, 1, 2, 3, 4},cacheR |-> TRUE,nextN |-> 5,edges |-> (0 :> <<2, 4>> @@ 1 :> <<3, 2>> @@ 2 :> <<3, 0>> @@ 3 :> <<3, 1>> @@ 4 :> <<4, 2>> @@ 5 :> <<1, 0>> @@ 6 :> <<0, 2>>),acyclic |-> FALSE,l |-> 293,eObj |-> (3 :> 1 @@ 4 :> 2),nextE |-> 7]),
    ([res |-> "raise",cacheV |-> FALSE,nodes |-> {0, 1, 2, 3, 4},cacheR |-> TRUE,nextN |-> 5,edges |-> (0 :> <<2, 4>> @@ 1 :> <<3, 2>> @@ 2 :> <<3, 0>> @@ 3 :> <<3, 1>> @@ 4 :> <<4, 2>> @@ 5 :> <<1, 0>> @@ 6 :> <<0, 2>>),acyclic |-> FALSE,l |-> 294,eObj |-> (3 :> 1 @@ 4 :> 2),nextE |-> 7]),
    ([res |-> "ok",cacheV |-> FALSE,nodes |-> {},cacheR |-> FALSE,nextN |-> 0,edges |-> <<>>,acyclic |-> TRUE,l |-> 295,eObj |-> <<>>,nextE |-> 0]),
    ([res |-> "raise",cacheV |-> FALSE,nodes |-> {},cacheR |-> FALSE,nextN |-> 0,edges |-> <<>>,acyclic |-> TRUE,l |-> 296,eObj |-> <<>>,nextE |-> 0]),
    ([res |-> "ok",cacheV |-> FALSE,nodes |-> {},cacheR |-> FALSE,nextN |-> 0,edges |-> <<>>,acyclic |-> TRUE,l |-> 297,eObj |-> <<>>,nextE |-> 0]),
    ([res |-> "ok",cacheV |-> FALSE,nodes |-> {},cacheR |-> FALSE,nextN |-> 0,edges |-> <<>>,acyclic |-> TRUE,l |-> 298,eObj |-> <<>>,nextE |-> 0]),
    ([res |-> "F",cacheV |-> TRUE,nodes |-> {},cacheR |-> FALSE,nextN |-> 0,edges |-> <<>>,acyclic |-> TRUE,l |-> 299,eObj |-> <<>>,nextE |-> 0]),
    ([res |-> "raise",cacheV |-> TRUE,nodes |-> {},cacheR |-> FALSE,nextN |-> 0,edges |-> <<>>,acyclic |-> TRUE,l |-> 300,eObj |-> <<>>,nextE |-> 0]),
    ([res |-> "raise",cacheV |-> TRUE,nodes |-> {},cacheR |-> FALSE,nextN |-> 0,edges |-> <<>>,acyclic |-> TRUE,l |-> 301,eObj |-> <<>>,nextE |-> 0]),
    ([res |-> "raise",cacheV |-> TRUE,nodes |-> {},cacheR |-> FALSE,nextN |-> 0,edges |-> <<>>,acyclic |-> TRUE,l |-> 302,eObj |-> <<>>,nextE |-> 0]),
    ([res |-> "ok",cacheV |-> TRUE,nodes |-> {},cacheR |-> FALSE,nextN |-> 0,edges |-> <<>>,acyclic |-> TRUE,l |-> 303,eObj |-> <<>>,nextE |-> 0]),
    ([res |-> "ok",cacheV |-> TRUE,nodes |-> {},cacheR |-> FALSE,nextN |-> 0,edges |-> <<>>,acyclic |-> TRUE,l |-> 304,eObj |-> <<>>,nextE |-> 0]),
    ([res |-> "raise",cacheV |-> TRUE,nodes |-> {},cacheR |-> FALSE,nextN |-> 0,edges |-> <<>>,acyclic |-> TRUE,l |-> 305,eObj |-> <<>>,nextE |-> 0]),
    ([res |-> "ok",cacheV |-> TRUE,nodes |-> {},cacheR |-> FALSE,nextN |-> 0,edges |-> <<>>,acyclic |-> TRUE,l |-> 306,eObj |-> <<>>,nextE |-> 0]),
    ([res |-> "ok",cacheV |-> TRUE,nodes |-> {},cacheR |-> FALSE,nextN |-> 0,edges |-> <<>>,acyclic |-> TRUE,l |-> 307,eObj |-> <<>>,nextE |-> 0]),
    ([res |-> "ok",cacheV |-> TRUE,nodes |-> {},cacheR |-> FALSE,nextN |-> 0,edges |-> <<>>,acyclic |-> TRUE,l |-> 308,eObj |-> <<>>,nextE |-> 0]),
    ([res |-> "ok",cacheV |-> TRUE,nodes |-> {},cacheR |-> FALSE,nextN |-> 0,edges |-> <<>>,acyclic |-> TRUE,l |-> 309,eObj |-> <<>>,nextE |-> 0]),
    ([res |-> "RT",cacheV |-> TRUE,nodes |-> {},cacheR |-> FALSE,nextN |-> 0,edges |-> <<>>,acyclic |-> TRUE,l |-> 310,eObj |-> <<>>,nextE |-> 0]),
    ([res |-> "ok",cacheV |-> FALSE,nodes |-> {0},cacheR |-> FALSE,nextN |-> 1,edges |-> <<>>,acyclic |-> TRUE,l |-> 311,eObj |-> <<>>,nextE |-> 0]),
    ([res |-> "ok",cacheV |-> FALSE,nodes |-> {0, 1},cacheR |-> FALSE,nextN |-> 2,edges |-> <<>>,acyclic |-> TRUE,l |-> 312,eObj |-> <<>>,nextE |-> 0]),
    ([res |-> "ok",cacheV |-> FALSE,nodes |-> {0, 1},cacheR |-> FALSE,nextN |-> 2,edges |-> (0 :> <<0, 1>>),acyclic |-> TRUE,l |-> 313,eObj |-> <<>>,nextE |-> 1]),
    ([res |-> "ok",cacheV |-> FALSE,nodes |-> {0, 1},cacheR |-> FALSE,nextN |-> 2,edges |-> (0 :> <<0, 1>> @@ 1 :> <<1, 0>>),acyclic |-> FALSE,l |-> 314,eObj |-> <<>>,nextE |-> 2]),
    ([res |-> "raise",cacheV |-> FALSE,nodes |-> {0, 1},cacheR |-> FALSE,nextN |-> 2,edges |-> (0 :> <<0, 1>> @@ 1 :> <<1, 0>>),acyclic |-> FALSE,l |-> 315,eObj |-> <<>>,nextE |-> 2]),
    ([res |-> "raise",cacheV |-> FALSE,nodes |-> {0, 1},cacheR |-> FALSE,nextN |-> 2,edges |-> (0 :> <<0, 1>> @@ 1 :> <<1, 0>>),acyclic |-> FALSE,l |-> 316,eObj |-> <<>>,nextE |-> 2]),
    ([res |-> "raise",cacheV |-> FALSE,nodes |-> {0, 1},cacheR |-> FALSE,nextN |-> 2,edges |-> (0 :> <<0, 1>> @@ 1 :> <<1, 0>>),acyclic |-> FALSE,l |-> 317,eObj |-> <<>>,nextE |-> 2]),
    ([res |-> "raise",cacheV |-> FALSE,nodes |-> {0, 1},cacheR |-> FALSE,nextN |-> 2,edges |-> (0 :> <<0, 1>> @@ 1 :> <<1, 0>>),acyclic |-> FALSE,l |-> 318,eObj |-> <<>>,nextE |-> 2]),
    ([res |-> "ok",cacheV |-> FALSE,nodes |-> {0, 1, 2},cacheR |-> FALSE,nextN |-> 3,edges |-> (0 :> <<0, 1>> @@ 1 :> <<1, 0>>),acyclic |-> FALSE,l |-> 319,eObj |-> <<>>,nextE |-> 2]),
    ([res |-> "raise",cacheV |-> FALSE,nodes |-> {0, 1, 2},cacheR |-> FALSE,nextN |-> 3,edges |-> (0 :> <<0, 1>> @@ 1 :> <<1, 0>>),acyclic |-> FALSE,l |-> 320,eObj |-> <<>>,nextE |-> 2]),
    ([res |-> "ok",cacheV |-> FALSE,nodes |-> {0, 1, 2, 3},cacheR |-> FALSE,nextN |-> 4,edges |-> (0 :> <<0, 1>> @@ 1 :> <<1, 0>>),acyclic |-> FALSE,l |-> 321,eObj |-> <<>>,nextE |-> 2]),
    ([res |-> "ok",cacheV |-> FALSE,nodes |-> {0, 1, 2, 3},cacheR |-> FALSE,nextN |-> 4,edges |-> (0 :> <<0, 1>> @@ 1 :> <<1, 0>> @@ 2 :> <<3, 3>>),acyclic |-> FALSE,l |-> 322,eObj |-> <<>>,nextE |-> 3]),
    ([res |-> "raise",cacheV |-> FALSE,nodes |-> {0, 1, 2, 3},cacheR |-> FALSE,nextN |-> 4,edges |-> (0 :> <<0, 1>> @@ 1 :> <<1, 0>> @@ 2 :> <<3, 3>>),acyclic |-> FALSE,l |-> 323,eObj |-> <<>>,nextE |-> 3]),
    ([res |-> "raise",cacheV |-> FALSE,nodes |-> {0, 1, 2, 3},cacheR |-> FALSE,nextN |-> 4,edges |-> (0 :> <<0, 1>> @@ 1 :> <<1, 0>> @@ 2 :> <<3, 3>>),acyclic |-> FALSE,l |-> 324,eObj |-> <<>>,nextE |-> 3]),
    ([res |-> "F",cacheV |-> FALSE,nodes |-> {0, 1, 2, 3},cacheR |-> FALSE,nextN |-> 4,edges |-> (0 :> <<0, 1>> @@ 1 :> <<1, 0>> @@ 2 :> <<3, 3>>),acyclic |-> FALSE,l |-> 325,eObj |-> <<>>,nextE |-> 3]),
    ([res |-> "raise",cacheV |-> FALSE,nodes |-> {0, 1, 2, 3},cacheR |-> FALSE,nextN |-> 4,edges |-> (0 :> <<0, 1>> @@ 1 :> <<1, 0>> @@ 2 :> <<3, 3>>),acyclic |-> FALSE,l |-> 326,eObj |-> <<>>,nextE |-> 3]),
    ([res |-> "F",cacheV |-> FALSE,nodes |-> {0, 1, 2, 3},cacheR |-> FALSE,nextN |-> 4,edges |-> (0 :> <<0, 1>> @@ 1 :> <<1, 0>> @@ 2 :> <<3, 3>>),acyclic |-> FALSE,l |-> 327,eObj |-> <<>>,nextE |-> 3]),
    ([res |-> "ok",cacheV |-> FALSE,nodes |-> {0, 1, 2, 3},cacheR |-> FALSE,nextN |-> 4,edges |-> (0 :> <<0, 1>> @@ 1 :> <<1, 0>> @@ 2 :> <<3, 3>> @@ 3 :> <<1, 1>>),acyclic |-> FALSE,l |-> 328,eObj |-> (3 :> 2),nextE |-> 4]),
    ([res |-> "raise",cacheV |-> FALSE,nodes |-> {0, 1, 2, 3},cacheR |-> FALSE,nextN |-> 4,edges |-> (0 :> <<0, 1>> @@ 1 :> <<1, 0>> @@ 2 :> <<3, 3>> @@ 3 :> <<1, 1>>),acyclic |-> FALSE,l |-> 329,eObj |-> (3 :> 2),nextE |-> 4]),
    ([res |-> "ok",cacheV |-> FALSE,nodes |-> {0, 1, 2, 3},cacheR |-> FALSE,nextN |-> 4,edges |-> (0 :> <<0, 1>> @@ 1 :> <<1, 0>> @@ 2 :> <<3, 3>> @@ 3 :> <<1, 1>>),acyclic |-> FALSE,l |-> 330,eObj |-> (3 :> 2),nextE |-> 4]),
    ([res |-> "raise",cacheV |-> FALSE,nodes |-> {0, 1, 2, 3},cacheR |-> FALSE,nextN |-> 4,edges |-> (0 :> <<0, 1>> @@ 1 :> <<1, 0>> @@ 2 :> <<3, 3>> @@ 3 :> <<1, 1>>),acyclic |-> FALSE,l |-> 331,eObj |-> (3 :> 2),nextE |-> 4]),
    ([res |-> "RT",cacheV |-> FALSE,nodes |-> {0, 1, 2, 3},cacheR |-> TRUE,nextN |-> 4,edges |-> (0 :> <<0, 1>> @@ 1 :> <<1, 0>> @@ 2 :> <<3, 3>> @@ 3 :> <<1, 1>>),acyclic |-> FALSE,l |-> 332,eObj |-> (3 :> 2),nextE |-> 4]),
    ([res |-> "ok",cacheV |-> FALSE,nodes |-> {0, 1, 2, 3, 4},cacheR |-> FALSE,nextN |-> 5,edges |-> (0 :> <<0, 1>> @@ 1 :> <<1, 0>> @@ 2 :> <<3, 3>> @@ 3 :> <<1, 1>>),acyclic |-> FALSE,l |-> 333,eObj |-> (3 :> 2),nextE |-> 4]),
    ([res |-> "F",cacheV |-> FALSE,nodes |-> {0, 1, 2, 3, 4},cacheR |-> FALSE,nextN |-> 5,edges |-> (0 :> <<0, 1>> @@ 1 :> <<1, 0>> @@ 2 :> <<3, 3>> @@ 3 :> <<1, 1>>),acyclic |-> FALSE,l |-> 334,eObj |-> (3 :> 2),nextE |-> 4]),
    ([res |-> "raise",cacheV |-> FALSE,nodes |-> {0, 1, 2, 3, 4},cacheR |-> FALSE,nextN |-> 5,edges |-> (0 :> <<0, 1>> @@ 1 :> <<1, 0>> @@ 2 :> <<3, 3>> @@ 3 :> <<1, 1>>),acyclic |-> FALSE,l |-> 335,eObj |-> (3 :> 2),nextE |-> 4]),
    ([res |-> "ok",cacheV |-> FALSE,nodes |-> {0, 1, 2, 4},cacheR |-> FALSE,nextN |-> 5,edges |-> (0 :> <<0, 1>> @@ 1 :> <<1, 0>> @@ 3 :> <<1, 1>>),acyclic |-> FALSE,l |-> 336,eObj |-> (3 :> 2),nextE |-> 4]),
    ([res |-> "ok",cacheV |-> FALSE,nodes |-> {0, 1, 2, 4},cacheR |-> FALSE,nextN |-> 5,edges |-> (0 :> <<0, 1>> @@ 1 :> <<1, 0>> @@ 3 :> <<1, 1>> @@ 4 :> <<0, 2>>),acyclic |-> FALSE,l |-> 337,eObj |-> (3 :> 2),nextE |-> 5]),
    ([res |-> "F",cacheV |-> FALSE,nodes |-> {0, 1, 2, 4},cacheR |-> FALSE,nextN |-> 5,edges |-> (0 :> <<0, 1>> @@ 1 :> <<1, 0>> @@ 3 :> <<1, 1>> @@ 4 :> <<0, 2>>),acyclic |-> FALSE,l |-> 338,eObj |-> (3 :> 2),nextE |-> 5]),
    ([res |-> "F",cacheV |-> FALSE,nodes |-> {0, 1, 2, 4},cacheR |-> FALSE,nextN |-> 5,edges |-> (0 :> <<0, 1>> @@ 1 :> <<1, 0>> @@ 3 :> <<1, 1>> @@ 4 :> <<0, 2>>),acyclic |-> FALSE,l |-> 339,eObj |-> (3 :> 2),nextE |-> 5]),
    ([res |-> "RT",cacheV |-> FALSE,nodes |-> {0, 1, 2, 4},cacheR |-> TRUE,nextN |-> 5,edges |-> (0 :> <<0, 1>> @@ 1 :> <<1, 0>> @@ 3 :> <<1, 1>> @@ 4 :> <<0, 2>>),acyclic |-> FALSE,l |-> 340,eObj |-> (3 :> 2),nextE |-> 5]),
    ([res |-> "ok",cacheV |-> FALSE,nodes |-> {0, 1, 2, 4},cacheR |-> TRUE,nextN |-> 5,edges |-> (0 :> <<0, 1>> @@ 1 :> <<1, 0>> @@ 3 :> <<1, 1>> @@ 4 :> <<0, 2>>),acyclic |-> FALSE,l |-> 341,eObj |-> (3 :> 2),nextE |-> 5]),
    ([res |-> "raise",cacheV |-> FALSE,nodes |-> {0, 1, 2, 4},cacheR |-> TRUE,nextN |-> 5,edges |-> (0 :> <<0, 1>> @@ 1 :> <<1, 0>> @@ 3 :> <<1, 1>> @@ 4 :> <<0, 2>>),acyclic |-> FALSE,l |-> 342,eObj |-> (3 :> 2),nextE |-> 5]),
    ([res |-> "ok",cacheV |-> FALSE,nodes |-> {},cacheR |-> FALSE,nextN |-> 0,edges |-> <<>>,acyclic |-> TRUE,l |-> 343,eObj |-> <<>>,nextE |-> 0]),
    ([res |-> "ok",cacheV |-> FALSE,nodes |-> {0},cacheR |-> FALSE,nextN |-> 1,edges |-> <<>>,acyclic |-> TRUE,l |-> 344,eObj |-> <<>>,nextE |-> 0]),
    ([res |-> "ok",cacheV |-> FALSE,nodes |-> {0, 1},cacheR |-> FALSE,nextN |-> 2,edges |-> <<>>,acyclic |-> TRUE,l |-> 345,eObj |-> <<>>,nextE |-> 0]),
    ([res |-> "ok",cacheV |-> FALSE,nodes |-> {0, 1, 2},cacheR |-> FALSE,nextN |-> 3,edges |-> <<>>,acyclic |-> TRUE,l |-> 346,eObj |-> <<>>,nextE |-> 0]),
    ([res |-> "ok",cacheV |-> FALSE,nodes |-> {0, 1, 2, 3},cacheR |-> FALSE,nextN |-> 4,edges |-> <<>>,acyclic |-> TRUE,l |-> 347,eObj |-> <<>>,nextE |-> 0]),
    ([res |-> "ok",cacheV |-> FALSE,nodes |-> {0, 1, 2, 3, 4},cacheR |-> FALSE,nextN |-> 5,edges |-> <<>>,acyclic |-> TRUE,l |-> 348,eObj |-> <<>>,nextE |-> 0]),
    ([res |-> "ok",cacheV |-> FALSE,nodes |-> {0, 1, 2, 3, 4},cacheR |-> FALSE,nextN |-> 5,edges |-> (0 :> <<0, 3>>),acyclic |-> TRUE,l |-> 349,eObj |-> (0 :> 1),nextE |-> 1]),
    ([res |-> "ok",cacheV |-> FALSE,nodes |-> {0, 1, 2, 3, 4},cacheR |-> FALSE,nextN |-> 5,edges |-> (0 :> <<0, 3>> @@ 1 :> <<0, 4>>),acyclic |-> TRUE,l |-> 350,eObj |-> (0 :> 1),nextE |-> 2]),
    ([res |-> "raise",cacheV |-> FALSE,nodes |-> {0, 1, 2, 3, 4},cacheR |-> FALSE,nextN |-> 5,edges |-> (0 :> <<0, 3>> @@ 1 :> <<0, 4>>),acyclic |-> TRUE,l |-> 351,eObj |-> (0 :> 1),nextE |-> 2]),
    ([res |-> "T",cacheV |-> TRUE,nodes |-> {0, 1, 2, 3, 4},cacheR |-> FALSE,nextN |-> 5,edges |-> (0 :> <<0, 3>> @@ 1 :> <<0, 4>>),acyclic |-> TRUE,l |-> 352,eObj |-> (0 :> 1),nextE |-> 2]),
    ([res |-> "RF",cacheV |-> TRUE,nodes |-> {0, 1, 2, 3, 4},cacheR |-> FALSE,nextN |-> 5,edges |-> (0 :> <<0, 3>> @@ 1 :> <<0, 4>>),acyclic |-> TRUE,l |-> 353,eObj |-> (0 :> 1),nextE |-> 2]),
    ([res |-> "ok",cacheV |-> TRUE,nodes |-> {0, 1, 2, 3, 4},cacheR |-> FALSE,nextN |-> 5,edges |-> (0 :> <<0, 3>> @@ 1 :> <<0, 4>>),acyclic |-> TRUE,l |-> 354,eObj |-> (0 :> 1),nextE |-> 2]),
    ([res |-> "ok",cacheV |-> TRUE,nodes |-> {0, 1, 2, 3, 4},cacheR |-> FALSE,nextN |-> 5,edges |-> (0 :> <<0, 3>> @@ 1 :> <<0, 4>>),acyclic |-> TRUE,l |-> 355,eObj |-> (0 :> 1),nextE |-> 2]),
    ([res |-> "ok",cacheV |-> TRUE,nodes |-> {0, 1, 2, 3, 4},cacheR |-> FALSE,nextN |-> 5,edges |-> (0 :> <<0, 3>> @@ 1 :> <<0, 4>>),acyclic |-> TRUE,l |-> 356,eObj |-> (0 :> 1),nextE |-> 2]),
    ([res |-> "ok",cacheV |-> TRUE,nodes |-> {0, 1, 2, 3, 4},cacheR |-> FALSE,nextN |-> 5,edges |-> (0 :> <<0, 3>> @@ 1 :> <<0, 4>>),acyclic |-> TRUE,l |-> 357,eObj |-> (0 :> 1),nextE |-> 2]),
    ([res |-> "ok",cacheV |-> TRUE,nodes |-> {0, 1, 2, 3, 4},cacheR |-> FALSE,nextN |-> 5,edges |-> (0 :> <<0, 3>> @@ 1 :> <<0, 4>>),acyclic |-> TRUE,l |-> 358,eObj |-> (0 :> 1),nextE |-> 2]),
    ([res |-> "ok",cacheV |-> TRUE,nodes |-> {0, 1, 2, 3, 4},cacheR |-> FALSE,nextN |-> 5,edges |-> (0 :> <<0, 3>> @@ 1 :> <<0, 4>>),acyclic |-> TRUE,l |-> 359,eObj |-> (0 :> 1),nextE |-> 2]),
    ([res |-> "ok",cacheV |-> TRUE,nodes |-> {0, 1, 2, 3, 4},cacheR |-> FALSE,nextN |-> 5,edges |-> (0 :> <<0, 3>> @@ 1 :> <<0, 4>>),acyclic |-> TRUE,l |-> 360,eObj |-> (0 :> 1),nextE |-> 2]),
    ([res |-> "ok",cacheV |-> FALSE,nodes |-> {},cacheR |-> FALSE,nextN |-> 0,edges |-> <<>>,acyclic |-> TRUE,l |-> 361,eObj |-> <<>>,nextE |-> 0]),
    ([res |-> "RT",cacheV |-> FALSE,nodes |-> {},cacheR |-> FALSE,nextN |-> 0,edges |-> <<>>,acyclic |-> TRUE,l |-> 362,eObj |-> <<>>,nextE |-> 0]),
    ([res |-> "raise",cacheV |-> FALSE,nodes |-> {},cacheR |-> FALSE,nextN |-> 0,edges |-> <<>>,acyclic |-> TRUE,l |-> 363,eObj |-> <<>>,nextE |-> 0]),
    ([res |-> "F",cacheV |-> TRUE,nodes |-> {},cacheR |-> FALSE,nextN |-> 0,edges |-> <<>>,acyclic |-> TRUE,l |-> 364,eObj |-> <<>>,nextE |-> 0]),
    ([res |-> "raise",cacheV |-> TRUE,nodes |-> {},cacheR |-> FALSE,nextN |-> 0,edges |-> <<>>,acyclic |-> TRUE,l |-> 365,eObj |-> <<>>,nextE |-> 0]),
    ([res |-> "ok",cacheV |-> FALSE,nodes |-> {0},cacheR |-> FALSE,nextN |-> 1,edges |-> <<>>,acyclic |-> TRUE,l |-> 366,eObj |-> <<>>,nextE |-> 0]),
    ([res |-> "ok",cacheV |-> TRUE,nodes |-> {0},cacheR |-> FALSE,nextN |-> 1,edges |-> <<>>,acyclic |-> TRUE,l |-> 367,eObj |-> <<>>,nextE |-> 0]),
    ([res |-> "ok",cacheV |-> FALSE,nodes |-> {0, 1},cacheR |-> FALSE,nextN |-> 2,edges |-> <<>>,acyclic |-> TRUE,l |-> 368,eObj |-> <<>>,nextE |-> 0]),
    ([res |-> "T",cacheV |-> TRUE,nodes |-> {0, 1},cacheR |-> FALSE,nextN |-> 2,edges |-> <<>>,acyclic |-> TRUE,l |-> 369,eObj |-> <<>>,nextE |-> 0]),
    ([res |-> "ok",cacheV |-> TRUE,nodes |-> {0, 1},cacheR |-> FALSE,nextN |-> 2,edges |-> <<>>,acyclic |-> TRUE,l |-> 370,eObj |-> <<>>,nextE |-> 0]),
    ([res |-> "ok",cacheV |-> TRUE,nodes |-> {0, 1},cacheR |-> FALSE,nextN |-> 2,edges |-> <<>>,acyclic |-> TRUE,l |-> 371,eObj |-> <<>>,nextE |-> 0]),
    ([res |-> "raise",cacheV |-> TRUE,nodes |-> {0, 1},cacheR |-> FALSE,nextN |-> 2,edges |-> <<>>,acyclic |-> TRUE,l |-> 372,eObj |-> <<>>,nextE |-> 0]),
    ([res |-> "ok",cacheV |-> TRUE,nodes |-> {0, 1},cacheR |-> FALSE,nextN |-> 2,edges |-> <<>>,acyclic |-> TRUE,l |-> 373,eObj |-> <<>>,nextE |-> 0]),
    ([res |-> "ok",cacheV |-> TRUE,nodes |-> {0, 1},cacheR |-> FALSE,nextN |-> 2,edges |-> <<>>,acyclic |-> TRUE,l |-> 374,eObj |-> <<>>,nextE |-> 0]),
    ([res |-> "ok",cacheV |-> FALSE,nodes |-> {0},cacheR |-> FALSE,nextN |-> 2,edges |-> <<>>,acyclic |-> TRUE,l |-> 375,eObj |-> <<>>,nextE |-> 0]),
    ([res |-> "ok",cacheV |-> TRUE,nodes |-> {0},cacheR |-> FALSE,nextN |-> 2,edges |-> <<>>,acyclic |-> TRUE,l |-> 376,eObj |-> <<>>,nextE |-> 0]),
    ([res |-> "ok",cacheV |-> FALSE,nodes |-> {},cacheR |-> FALSE,nextN |-> 2,edges |-> <<>>,acyclic |-> TRUE,l |-> 377,eObj |-> <<>>,nextE |-> 0]),
    ([res |-> "raise",cacheV |-> FALSE,nodes |-> {},cacheR |-> FALSE,nextN |-> 2,edges |-> <<>>,acyclic |-> TRUE,l |-> 378,eObj |-> <<>>,nextE |-> 0]),
    ([res |-> "raise",cacheV |-> FALSE,nodes |-> {},cacheR |-> FALSE,nextN |-> 2,edges |-> <<>>,acyclic |-> TRUE,l |-> 379,eObj |-> <<>>,nextE |-> 0]),
    ([res |-> "raise",cacheV |-> FALSE,nodes |-> {},cacheR |-> FALSE,nextN |-> 2,edges |-> <<>>,acyclic |-> TRUE,l |-> 380,eObj |-> <<>>,nextE |-> 0]),
    ([res |-> "RT",cacheV |-> FALSE,nodes |-> {},cacheR |-> FALSE,nextN |-> 2,edges |-> <<>>,acyclic |-> TRUE,l |-> 381,eObj |-> <<>>,nextE |-> 0]),
    ([res |-> "ok",cacheV |-> FALSE,nodes |-> {2},cacheR |-> FALSE,nextN |-> 3,edges |-> <<>>,acyclic |-> TRUE,l |-> 382,eObj |-> <<>>,nextE |-> 0]),
    ([res |-> "ok",cacheV |-> FALSE,nodes |-> {},cacheR |-> FALSE,nextN |-> 3,edges |-> <<>>,acyclic |-> TRUE,l |-> 383,eObj |-> <<>>,nextE |-> 0]),
    ([res |-> "F",cacheV |-> TRUE,nodes |-> {},cacheR |-> FALSE,nextN |-> 3,edges |-> <<>>,acyclic |-> TRUE,l |-> 384,eObj |-> <<>>,nextE |-> 0]),
    ([res |-> "raise",cacheV |-> TRUE,nodes |-> {},cacheR |-> FALSE,nextN |-> 3,edges |-> <<>>,acyclic |-> TRUE,l |-> 385,eObj |-> <<>>,nextE |-> 0]),
    ([res |-> "raise",cacheV |-> TRUE,nodes |-> {},cacheR |-> FALSE,nextN |-> 3,edges |-> <<>>,acyclic |-> TRUE,l |-> 386,eObj |-> <<>>,nextE |-> 0]),
    ([res |-> "raise",cacheV |-> TRUE,nodes |-> {},cacheR |-> FALSE,nextN |-> 3,edges |-> <<>>,acyclic |-> TRUE,l |-> 387,eObj |-> <<>>,nextE |-> 0]),
    ([res |-> "F",cacheV |-> TRUE,nodes |-> {},cacheR |-> FALSE,nextN |-> 3,edges |-> <<>>,acyclic |-> TRUE,l |-> 388,eObj |-> <<>>,nextE |-> 0]),
    ([res |-> "ok",cacheV |-> FALSE,nodes |-> {3},cacheR |-> FALSE,nextN |-> 4,edges |-> <<>>,acyclic |-> TRUE,l |-> 389,eObj |-> <<>>,nextE |-> 0]),
    ([res |-> "ok",cacheV |-> TRUE,nodes |-> {3},cacheR |-> FALSE,nextN |-> 4,edges |-> <<>>,acyclic |-> TRUE,l |-> 390,eObj |-> <<>>,nextE |-> 0]),
    ([res |-> "T",cacheV |-> TRUE,nodes |-> {3},cacheR |-> FALSE,nextN |-> 4,edges |-> <<>>,acyclic |-> TRUE,l |-> 391,eObj |-> <<>>,nextE |-> 0]),
    ([res |-> "raise",cacheV |-> TRUE,nodes |-> {3},cacheR |-> FALSE,nextN |-> 4,edges |-> <<>>,acyclic |-> TRUE,l |-> 392,eObj |-> <<>>,nextE |-> 0]),
    ([res |-> "ok",cacheV |-> FALSE,nodes |-> {3, 4},cacheR |-> FALSE,nextN |-> 5,edges |-> <<>>,acyclic |-> TRUE,l |-> 393,eObj |-> <<>>,nextE |-> 0]),
    ([res |-> "RF",cacheV |-> FALSE,nodes |-> {3, 4},cacheR |-> FALSE,nextN |-> 5,edges |-> <<>>,acyclic |-> TRUE,l |-> 394,eObj |-> <<>>,nextE |-> 0]),
    ([res |-> "raise",cacheV |-> FALSE,nodes |-> {3, 4},cacheR |-> FALSE,nextN |-> 5,edges |-> <<>>,acyclic |-> TRUE,l |-> 395,eObj |-> <<>>,nextE |-> 0]),
    ([res |-> "ok",cacheV |-> FALSE,nodes |-> {3, 4},cacheR |-> FALSE,nextN |-> 5,edges |-> (0 :> <<4, 4>>),acyclic |-> FALSE,l |-> 396,eObj |-> <<>>,nextE |-> 1]),
    ([res |-> "raise",cacheV |-> FALSE,nodes |-> {3, 4},cacheR |-> FALSE,nextN |-> 5,edges |-> (0 :> <<4, 4>>),acyclic |-> FALSE,l |-> 397,eObj |-> <<>>,nextE |-> 1]),
    ([res |-> "raise",cacheV |-> FALSE,nodes |-> {3, 4},cacheR |-> FALSE,nextN |-> 5,edges |-> (0 :> <<4, 4>>),acyclic |-> FALSE,l |-> 398,eObj |-> <<>>,nextE |-> 1]),
    ([res |-> "ok",cacheV |-> FALSE,nodes |-> {3, 4, 5},cacheR |-> FALSE,nextN |-> 6,edges |-> (0 :> <<4, 4>>),acyclic |-> FALSE,l |-> 399,eObj |-> <<>>,nextE |-> 1]),
    ([res |-> "F",cacheV |-> FALSE,nodes |-> {3, 4, 5},cacheR |-> FALSE,nextN |-> 6,edges |-> (0 :> <<4, 4>>),acyclic |-> FALSE,l |-> 400,eObj |-> <<>>,nextE |-> 1]),
    ([res |-> "RF",cacheV |-> FALSE,nodes |-> {3, 4, 5},cacheR |-> FALSE,nextN |-> 6,edges |-> (0 :> <<4, 4>>),acyclic |-> FALSE,l |-> 401,eObj |-> <<>>,nextE |-> 1]),
    ([res |-> "ok",cacheV |-> FALSE,nodes |-> {3, 4, 5},cacheR |-> FALSE,nextN |-> 6,edges |-> (0 :> <<4, 4>>),acyclic |-> FALSE,l |-> 402,eObj |-> <<>>,nextE |-> 1]),
    ([res |-> "raise",cacheV |-> FALSE,nodes |-> {3, 4, 5},cacheR |-> FALSE,nextN |-> 6,edges |-> (0 :> <<4, 4>>),acyclic |-> FALSE,l |-> 403,eObj |-> <<>>,nextE |-> 1]),
    ([res |-> "ok",cacheV |-> FALSE,nodes |-> {},cacheR |-> FALSE,nextN |-> 0,edges |-> <<>>,acyclic |-> TRUE,l |-> 404,eObj |-> <<>>,nextE |-> 0]),
    ([res |-> "ok",cacheV |-> FALSE,nodes |-> {0},cacheR |-> FALSE,nextN |-> 1,edges |-> <<>>,acyclic |-> TRUE,l |-> 405,eObj |-> <<>>,nextE |-> 0]),
    ([res |-> "ok",cacheV |-> FALSE,nodes |-> {0, 1},cacheR |-> FALSE,nextN |-> 2,edges |-> <<>>,acyclic |-> TRUE,l |-> 406,eObj |-> <<>>,nextE |-> 0]),
    ([res |-> "ok",cacheV |-> FALSE,nodes |-> {0, 1, 2},cacheR |-> FALSE,nextN |-> 3,edges |-> <<>>,acyclic |-> TRUE,l |-> 407,eObj |-> <<>>,nextE |-> 0]),
    ([res |-> "ok",cacheV |-> FALSE,nodes |-> {0, 1, 2, 3},cacheR |-> FALSE,nextN |-> 4,edges |-> <<>>,acyclic |-> TRUE,l |-> 408,eObj |-> <<>>,nextE |-> 0]),
    ([res |-> "ok",cacheV |-> FALSE,nodes |-> {0, 1, 2, 3, 4},cacheR |-> FALSE,nextN |-> 5,edges |-> <<>>,acyclic |-> TRUE,l |-> 409,eObj |-> <<>>,nextE |-> 0]),
    ([res |-> "ok",cacheV |-> FALSE,nodes |-> {0, 1, 2, 3, 4, 5},cacheR |-> FALSE,nextN |-> 6,edges |-> <<>>,acyclic |-> TRUE,l |-> 410,eObj |-> <<>>,nextE |-> 0]),
    ([res |-> "ok",cacheV |-> FALSE,nodes |-> {0, 1, 2, 3, 4, 5},cacheR |-> FALSE,nextN |-> 6,edges |-> (0 :> <<5, 0>>),acyclic |-> TRUE,l |-> 411,eObj |-> <<>>,nextE |-> 1]),
    ([res |-> "T",cacheV |-> TRUE,nodes |-> {0, 1, 2, 3, 4, 5},cacheR |-> FALSE,nextN |-> 6,edges |-> (0 :> <<5, 0>>),acyclic |-> TRUE,l |-> 412,eObj |-> <<>>,nextE |-> 1]),
    ([res |-> "ok",cacheV |-> FALSE,nodes |-> {0, 1, 2, 3, 4, 5},cacheR |-> FALSE,nextN |-> 6,edges |-> (0 :> <<5, 0>> @@ 1 :> <<4, 1>>),acyclic |-> TRUE,l |-> 413,eObj |-> <<>>,nextE |-> 2]),
    ([res |-> "ok",cacheV |-> FALSE,nodes |-> {0, 1, 2, 3, 4, 5},cacheR |-> FALSE,nextN |-> 6,edges |-> (0 :> <<5, 0>> @@ 1 :> <<4, 1>> @@ 2 :> <<4, 3>>),acyclic |-> TRUE,l |-> 414,eObj |-> (2 :> 1),nextE |-> 3]),
    ([res |-> "ok",cacheV |-> FALSE,nodes |-> {0, 1, 2, 3, 4, 5},cacheR |-> FALSE,nextN |-> 6,edges |-> (0 :> <<5, 0>> @@ 1 :> <<4, 1>> @@ 2 :> <<4, 3>> @@ 3 :> <<2, 0>>),acyclic |-> TRUE,l |-> 415,eObj |-> (2 :> 1),nextE |-> 4]),
    ([res |-> "ok",cacheV |-> FALSE,nodes |-> {0, 1, 2, 3, 4, 5},cacheR |-> FALSE,nextN |-> 6,edges |-> (0 :> <<5, 0>> @@ 1 :> <<4, 1>> @@ 2 :> <<4, 3>> @@ 3 :> <<2, 0>> @@ 4 :> <<1, 0>>),acyclic |-> TRUE,l |-> 416,eObj |-> (2 :> 1 @@ 4 :> 2),nextE |-> 5]),
    ([res |-> "raise",cacheV |-> FALSE,nodes |-> {0, 1, 2, 3, 4, 5},cacheR |-> FALSE,nextN |-> 6,edges |-> (0 :> <<5, 0>> @@ 1 :> <<4, 1>> @@ 2 :> <<4, 3>> @@ 3 :> <<2, 0>> @@ 4 :> <<1, 0>>),acyclic |-> TRUE,l |-> 417,eObj |-> (2 :> 1 @@ 4 :> 2),nextE |-> 5]),
    ([res |-> "ok",cacheV |-> FALSE,nodes |-> {0, 1, 2, 3, 4, 5},cacheR |-> FALSE,nextN |-> 6,edges |-> (0 :> <<5, 0>> @@ 1 :> <<4, 1>> @@ 2 :> <<4, 3>> @@ 3 :> <<2, 0>> @@ 4 :> <<1, 0>> @@ 5 :> <<5, 2>>),acyclic |-> TRUE,l |-> 418,eObj |-> (2 :> 1 @@ 4 :> 2),nextE |-> 6]),
    ([res |-> "T",cacheV |-> TRUE,nodes |-> {0, 1, 2, 3, 4, 5},cacheR |-> FALSE,nextN |-> 6,edges |-> (0 :> <<5, 0>> @@ 1 :> <<4, 1>> @@ 2 :> <<4, 3>> @@ 3 :> <<2, 0>> @@ 4 :> <<1, 0>> @@ 5 :> <<5, 2>>),acyclic |-> TRUE,l |-> 419,eObj |-> (2 :> 1 @@ 4 :> 2),nextE |-> 6]),
    ([res |-> "ok",cacheV |-> FALSE,nodes |-> {0, 1, 2, 3, 4, 5},cacheR |-> FALSE,nextN |-> 6,edges |-> (0 :> <<5, 0>> @@ 1 :> <<4, 1>> @@ 2 :> <<4, 3>> @@ 3 :> <<2, 0>> @@ 4 :> <<1, 0>> @@ 5 :> <<5, 2>> @@ 6 :> <<1, 3>>),acyclic |-> TRUE,l |-> 420,eObj |-> (2 :> 1 @@ 4 :> 2 @@ 6 :> 3),nextE |-> 7]),
    ([res |-> "T",cacheV |-> TRUE,nodes |-> {0, 1, 2, 3, 4, 5},cacheR |-> FALSE,nextN |-> 6,edges |-> (0 :> <<5, 0>> @@ 1 :> <<4, 1>> @@ 2 :> <<4, 3>> @@ 3 :> <<2, 0>> @@ 4 :> <<1, 0>> @@ 5 :> <<5, 2>> @@ 6 :> <<1, 3>>),acyclic |-> TRUE,l |-> 421,eObj |-> (2 :> 1 @@ 4 :> 2 @@ 6 :> 3),nextE |-> 7]),
    ([res |-> "RF",cacheV |-> TRUE,nodes |-> {0, 1, 2, 3, 4, 5},cacheR |-> FALSE,nextN |-> 6,edges |-> (0 :> <<5, 0>> @@ 1 :> <<4, 1>> @@ 2 :> <<4, 3>> @@ 3 :> <<2, 0>> @@ 4 :> <<1, 0>> @@ 5 :> <<5, 2>> @@ 6 :> <<1, 3>>),acyclic |-> TRUE,l |-> 422,eObj |-> (2 :> 1 @@ 4 :> 2 @@ 6 :> 3),nextE |-> 7]),
    ([res |-> "ok",cacheV |-> TRUE,nodes |-> {0, 1, 2, 3, 4, 5},cacheR |-> FALSE,nextN |-> 6,edges |-> (0 :> <<5, 0>> @@ 1 :> <<4, 1>> @@ 2 :> <<4, 3>> @@ 3 :> <<2, 0>> @@ 4 :> <<1, 0>> @@ 5 :> <<5, 2>> @@ 6 :> <<1, 3>>),acyclic |-> TRUE,l |-> 423,eObj |-> (2 :> 1 @@ 4 :> 2 @@ 6 :> 3),nextE |-> 7]),
    ([res |-> "ok",cacheV |-> TRUE,nodes |-> {0, 1, 2, 3, 4, 5},cacheR |-> FALSE,nextN |-> 6,edges |-> (0 :> <<5, 0>> @@ 1 :> <<4, 1>> @@ 2 :> <<4, 3>> @@ 3 :> <<2, 0>> @@ 4 :> <<1, 0>> @@ 5 :> <<5, 2>> @@ 6 :> <<1, 3>>),acyclic |-> TRUE,l |-> 424,eObj |-> (2 :> 1 @@ 4 :> 2 @@ 6 :> 3),nextE |-> 7]),
    ([res |-> "ok",cacheV |-> TRUE,nodes |-> {0, 1, 2, 3, 4, 5},cacheR |-> FALSE,nextN |-> 6,edges |-> (0 :> <<5, 0>> @@ 1 :> <<4, 1>> @@ 2 :> <<4, 3>> @@ 3 :> <<2, 0>> @@ 4 :> <<1, 0>> @@ 5 :> <<5, 2>> @@ 6 :> <<1, 3>>),acyclic |-> TRUE,l |-> 425,eObj |-> (2 :> 1 @@ 4 :> 2 @@ 6 :> 3),nextE |-> 7]),
    ([res |-> "ok",cacheV |-> TRUE,nodes |-> {0, 1, 2, 3, 4, 5},cacheR |-> FALSE,nextN |-> 6,edges |-> (0 :> <<5, 0>> @@ 1 :> <<4, 1>> @@ 2 :> <<4, 3>> @@ 3 :> <<2, 0>> @@ 4 :> <<1, 0>> @@ 5 :> <<5, 2>> @@ 6 :> <<1, 3>>),acyclic |-> TRUE,l |-> 426,eObj |-> (2 :> 1 @@ 4 :> 2 @@ 6 :> 3),nextE |-> 7]),
    ([res |-> "ok",cacheV |-> TRUE,nodes |-> {0, 1, 2, 3, 4, 5},cacheR |-> FALSE,nextN |-> 6,edges |-> (0 :> <<5, 0>> @@ 1 :> <<4, 1>> @@ 2 :> <<4, 3>> @@ 3 :> <<2, 0>> @@ 4 :> <<1, 0>> @@ 5 :> <<5, 2>> @@ 6 :> <<1, 3>>),acyclic |-> TRUE,l |-> 427,eObj |-> (2 :> 1 @@ 4 :> 2 @@ 6 :> 3),nextE |-> 7]),
    ([res |-> "ok",cacheV |-> TRUE,nodes |-> {0, 1, 2, 3, 4, 5},cacheR |-> FALSE,nextN |-> 6,edges |-> (0 :> <<5, 0>> @@ 1 :> <<4, 1>> @@ 2 :> <<4, 3>> @@ 3 :> <<2, 0>> @@ 4 :> <<1, 0>> @@ 5 :> <<5, 2>> @@ 6 :> <<1, 3>>),acyclic |-> TRUE,l |-> 428,eObj |-> (2 :> 1 @@ 4 :> 2 @@ 6 :> 3),nextE |-> 7]),
    ([res |-> "ok",cacheV |-> TRUE,nodes |-> {0, 1, 2, 3, 4, 5},cacheR |-> FALSE,nextN |-> 6,edges |-> (0 :> <<5, 0>> @@ 1 :> <<4, 1>> @@ 2 :> <<4, 3>> @@ 3 :> <<2, 0>> @@ 4 :> <<1, 0>> @@ 5 :> <<5, 2>> @@ 6 :> <<1, 3>>),acyclic |-> TRUE,l |-> 429,eObj |-> (2 :> 1 @@ 4 :> 2 @@ 6 :> 3),nextE |-> 7]),
    ([res |-> "ok",cacheV |-> TRUE,nodes |-> {0, 1, 2, 3, 4, 5},cacheR |-> FALSE,nextN |-> 6,edges |-> (0 :> <<5, 0>> @@ 1 :> <<4, 1>> @@ 2 :> <<4, 3>> @@ 3 :> <<2, 0>> @@ 4 :> <<1, 0>> @@ 5 :> <<5, 2>> @@ 6 :> <<1, 3>>),acyclic |-> TRUE,l |-> 430,eObj |-> (2 :> 1 @@ 4 :> 2 @@ 6 :> 3),nextE |-> 7]),
    ([res |-> "ok",cacheV |-> FALSE,nodes |-> {},cacheR |-> FALSE,nextN |-> 0,edges |-> <<>>,acyclic |-> TRUE,l |-> 431,eObj |-> <<>>,nextE |-> 0]),
    ([res |-> "raise",cacheV |-> FALSE,nodes |-> {},cacheR |-> FALSE,nextN |-> 0,edges |-> <<>>,acyclic |-> TRUE,l |-> 432,eObj |-> <<>>,nextE |-> 0]),
    ([res |-> "RT",cacheV |-> FALSE,nodes |-> {},cacheR |-> FALSE,nextN |-> 0,edges |-> <<>>,acyclic |-> TRUE,l |-> 433,eObj |-> <<>>,nextE |-> 0]),
    ([res |-> "raise",cacheV |-> FALSE,nodes |-> {},cacheR |-> FALSE,nextN |-> 0,edges |-> <<>>,acyclic |-> TRUE,l |-> 434,eObj |-> <<>>,nextE |-> 0]),
    ([res |-> "F",cacheV |-> TRUE,nodes |-> {},cacheR |-> FALSE,nextN |-> 0,edges |-> <<>>,acyclic |-> TRUE,l |-> 435,eObj |-> <<>>,nextE |-> 0]),
    ([res |-> "raise",cacheV |-> TRUE,nodes |-> {},cacheR |-> FALSE,nextN |-> 0,edges |-> <<>>,acyclic |-> TRUE,l |-> 436,eObj |-> <<>>,nextE |-> 0]),
    ([res |-> "RT",cacheV |-> TRUE,nodes |-> {},cacheR |-> FALSE,nextN |-> 0,edges |-> <<>>,acyclic |-> TRUE,l |-> 437,eObj |-> <<>>,nextE |-> 0]),
    ([res |-> "raise",cacheV |-> TRUE,nodes |-> {},cacheR |-> FALSE,nextN |-> 0,edges |-> <<>>,acyclic |-> TRUE,l |-> 438,eObj |-> <<>>,nextE |-> 0]),
    ([res |-> "raise",cacheV |-> TRUE,nodes |-> {},cacheR |-> FALSE,nextN |-> 0,edges |-> <<>>,acyclic |-> TRUE,l |-> 439,eObj |-> <<>>,nextE |-> 0]),
    ([res |-> "F",cacheV |-> TRUE,nodes |-> {},cacheR |-> FALSE,nextN |-> 0,edges |-> <<>>,acyclic |-> TRUE,l |-> 440,eObj |-> <<>>,nextE |-> 0]),
    ([res |-> "ok",cacheV |-> TRUE,nodes |-> {},cacheR |-> FALSE,nextN |-> 0,edges |-> <<>>,acyclic |-> TRUE,l |-> 441,eObj |-> <<>>,nextE |-> 0]),
    ([res |-> "ok",cacheV |-> TRUE,nodes |-> {},cacheR |-> FALSE,nextN |-> 0,edges |-> <<>>,acyclic |-> TRUE,l |-> 442,eObj |-> <<>>,nextE |-> 0]),
    ([res |-> "raise",cacheV |-> TRUE,nodes |-> {},cacheR |-> FALSE,nextN |-> 0,edges |-> <<>>,acyclic |-> TRUE,l |-> 443,eObj |-> <<>>,nextE |-> 0]),
    ([res |-> "raise",cacheV |-> TRUE,nodes |-> {},cacheR |-> FALSE,nextN |-> 0,edges |-> <<>>,acyclic |-> TRUE,l |-> 444,eObj |-> <<>>,nextE |-> 0]),
    ([res |-> "raise",cacheV |-> TRUE,nodes |-> {},cacheR |-> FALSE,nextN |-> 0,edges |-> <<>>,acyclic |-> TRUE,l |-> 445,eObj |-> <<>>,nextE |-> 0]),
    ([res |-> "F",cacheV |-> TRUE,nodes |-> {},cacheR |-> FALSE,nextN |-> 0,edges |-> <<>>,acyclic |-> TRUE,l |-> 446,eObj |-> <<>>,nextE |-> 0]),
    ([res |-> "ok",cacheV |-> FALSE,nodes |-> {0},cacheR |-> FALSE,nextN |-> 1,edges |-> <<>>,acyclic |-> TRUE,l |-> 447,eObj |-> <<>>,nextE |-> 0]),
    ([res |-> "ok",cacheV |-> TRUE,nodes |-> {0},cacheR |-> FALSE,nextN |-> 1,edges |-> <<>>,acyclic |-> TRUE,l |-> 448,eObj |-> <<>>,nextE |-> 0]),
    ([res |-> "raise",cacheV |-> TRUE,nodes |-> {0},cacheR |-> FALSE,nextN |-> 1,edges |-> <<>>,acyclic |-> TRUE,l |-> 449,eObj |-> <<>>,nextE |-> 0]),
    ([res |-> "ok",cacheV |-> FALSE,nodes |-> {0},cacheR |-> FALSE,nextN |-> 1,edges |-> (0 :> <<0, 0>>),acyclic |-> FALSE,l |-> 450,eObj |-> <<>>,nextE |-> 1]),
    ([res |-> "raise",cacheV |-> FALSE,nodes |-> {0},cacheR |-> FALSE,nextN |-> 1,edges |-> (0 :> <<0, 0>>),acyclic |-> FALSE,l |-> 451,eObj |-> <<>>,nextE |-> 1]),
    ([res |-> "raise",cacheV |-> FALSE,nodes |-> {0},cacheR |-> FALSE,nextN |-> 1,edges |-> (0 :> <<0, 0>>),acyclic |-> FALSE,l |-> 452,eObj |-> <<>>,nextE |-> 1]),
    ([res |-> "raise",cacheV |-> FALSE,nodes |-> {0},cacheR |-> FALSE,nextN |-> 1,edges |-> (0 :> <<0, 0>>),acyclic |-> FALSE,l |-> 453,eObj |-> <<>>,nextE |-> 1]),
    ([res |-> "ok",cacheV |-> FALSE,nodes |-> {0, 1},cacheR |-> FALSE,nextN |-> 2,edges |-> (0 :> <<0, 0>>),acyclic |-> FALSE,l |-> 454,eObj |-> <<>>,nextE |-> 1]),
    ([res |-> "ok",cacheV |-> FALSE,nodes |-> {0, 1},cacheR |-> FALSE,nextN |-> 2,edges |-> (0 :> <<0, 0>> @@ 1 :> <<1, 1>>),acyclic |-> FALSE,l |-> 455,eObj |-> <<>>,nextE |-> 2]),
    ([res |-> "F",cacheV |-> FALSE,nodes |-> {0, 1},cacheR |-> FALSE,nextN |-> 2,edges |-> (0 :> <<0, 0>> @@ 1 :> <<1, 1>>),acyclic |-> FALSE,l |-> 456,eObj |-> <<>>,nextE |-> 2]),
    ([res |-> "ok",cacheV |-> FALSE,nodes |-> {0, 1},cacheR |-> FALSE,nextN |-> 2,edges |-> (0 :> <<0, 0>> @@ 1 :> <<1, 1>> @@ 2 :> <<0, 1>>),acyclic |-> FALSE,l |-> 457,eObj |-> <<>>,nextE |-> 3]),
    ([res |-> "raise",cacheV |-> FALSE,nodes |-> {0, 1},cacheR |-> FALSE,nextN |-> 2,edges |-> (0 :> <<0, 0>> @@ 1 :> <<1, 1>> @@ 2 :> <<0, 1>>),acyclic |-> FALSE,l |-> 458,eObj |-> <<>>,nextE |-> 3]),
    ([res |-> "raise",cacheV |-> FALSE,nodes |-> {0, 1},cacheR |-> FALSE,nextN |-> 2,edges |-> (0 :> <<0, 0>> @@ 1 :> <<1, 1>> @@ 2 :> <<0, 1>>),acyclic |-> FALSE,l |-> 459,eObj |-> <<>>,nextE |-> 3]),
    ([res |-> "F",cacheV |-> FALSE,nodes |-> {0, 1},cacheR |-> FALSE,nextN |-> 2,edges |-> (0 :> <<0, 0>> @@ 1 :> <<1, 1>> @@ 2 :> <<0, 1>>),acyclic |-> FALSE,l |-> 460,eObj |-> <<>>,nextE |-> 3]),
    ([res |-> "RT",cacheV |-> FALSE,nodes |-> {0, 1},cacheR |-> FALSE,nextN |-> 2,edges |-> (0 :> <<0, 0>> @@ 1 :> <<1, 1>> @@ 2 :> <<0, 1>>),acyclic |-> FALSE,l |-> 461,eObj |-> <<>>,nextE |-> 3]),
    ([res |-> "ok",cacheV |-> FALSE,nodes |-> {0, 1, 2},cacheR |-> FALSE,nextN |-> 3,edges |-> (0 :> <<0, 0>> @@ 1 :> <<1, 1>> @@ 2 :> <<0, 1>>),acyclic |-> FALSE,l |-> 462,eObj |-> <<>>,nextE |-> 3]),
    ([res |-> "ok",cacheV |-> FALSE,nodes |-> {0, 1, 2},cacheR |-> FALSE,nextN |-> 3,edges |-> <<<<1, 1>>, <<0, 1>>>>,acyclic |-> FALSE,l |-> 463,eObj |-> <<>>,nextE |-> 3]),
    ([res |-> "RF",cacheV |-> FALSE,nodes |-> {0, 1, 2},cacheR |-> FALSE,nextN |-> 3,edges |-> <<<<1, 1>>, <<0, 1>>>>,acyclic |-> FALSE,l |-> 464,eObj |-> <<>>,nextE |-> 3]),
    ([res |-> "ok",cacheV |-> FALSE,nodes |-> {0, 1, 2},cacheR |-> FALSE,nextN |-> 3,edges |-> <<<<1, 1>>, <<0, 1>>, <<1, 0>>>>,acyclic |-> FALSE,l |-> 465,eObj |-> (3 :> 1),nextE |-> 4]),
    ([res |-> "F",cacheV |-> FALSE,nodes |-> {0, 1, 2},cacheR |-> FALSE,nextN |-> 3,edges |-> <<<<1, 1>>, <<0, 1>>, <<1, 0>>>>,acyclic |-> FALSE,l |-> 466,eObj |-> (3 :> 1),nextE |-> 4]),
    ([res |-> "F",cacheV |-> FALSE,nodes |-> {0, 1, 2},cacheR |-> FALSE,nextN |-> 3,edges |-> <<<<1, 1>>, <<0, 1>>, <<1, 0>>>>,acyclic |-> FALSE,l |-> 467,eObj |-> (3 :> 1),nextE |-> 4]),
    ([res |-> "raise",cacheV |-> FALSE,nodes |-> {0, 1, 2},cacheR |-> FALSE,nextN |-> 3,edges |-> <<<<1, 1>>, <<0, 1>>, <<1, 0>>>>,acyclic |-> FALSE,l |-> 468,eObj |-> (3 :> 1),nextE |-> 4]),
    ([res |-> "ok",cacheV |-> FALSE,nodes |-> {0, 1, 2, 3},cacheR |-> FALSE,nextN |-> 4,edges |-> <<<<1, 1>>, <<0, 1>>, <<1, 0>>>>,acyclic |-> FALSE,l |-> 469,eObj |-> (3 :> 1),nextE |-> 4]),
    ([res |-> "F",cacheV |-> FALSE,nodes |-> {0, 1, 2, 3},cacheR |-> FALSE,nextN |-> 4,edges |-> <<<<1, 1>>, <<0, 1>>, <<1, 0>>>>,acyclic |-> FALSE,l |-> 470,eObj |-> (3 :> 1),nextE |-> 4]),
    ([res |-> "raise",cacheV |-> FALSE,nodes |-> {0, 1, 2, 3},cacheR |-> FALSE,nextN |-> 4,edges |-> <<<<1, 1>>, <<0, 1>>, <<1, 0>>>>,acyclic |-> FALSE,l |-> 471,eObj |-> (3 :> 1),nextE |-> 4]),
    ([res |-> "F",cacheV |-> FALSE,nodes |-> {0, 1, 2, 3},cacheR |-> FALSE,nextN |-> 4,edges |-> <<<<1, 1>>, <<0, 1>>, <<1, 0>>>>,acyclic |-> FALSE,l |-> 472,eObj |-> (3 :> 1),nextE |-> 4]),
    ([res |-> "RF",cacheV |-> FALSE,nodes |-> {0, 1, 2, 3},cacheR |-> FALSE,nextN |-> 4,edges |-> <<<<1, 1>>, <<0, 1>>, <<1, 0>>>>,acyclic |-> FALSE,l |-> 473,eObj |-> (3 :> 1),nextE |-> 4]),
    ([res |-> "ok",cacheV |-> FALSE,nodes |-> {0, 1, 2, 3},cacheR |-> FALSE,nextN |-> 4,edges |-> <<<<1, 1>>, <<0, 1>>, <<1, 0>>>>,acyclic |-> FALSE,l |-> 474,eObj |-> (3 :> 1),nextE |-> 4]),
    ([res |-> "raise",cacheV |-> FALSE,nodes |-> {0, 1, 2, 3},cacheR |-> FALSE,nextN |-> 4,edges |-> <<<<1, 1>>, <<0, 1>>, <<1, 0>>>>,acyclic |-> FALSE,l |-> 475,eObj |-> (3 :> 1),nextE |-> 4]),
    ([res |-> "ok",cacheV |-> FALSE,nodes |-> {},cacheR |-> FALSE,nextN |-> 0,edges |-> <<>>,acyclic |-> TRUE,l |-> 476,eObj |-> <<>>,nextE |-> 0]),
    ([res |-> "ok",cacheV |-> FALSE,nodes |-> {0},cacheR |-> FALSE,nextN |-> 1,edges |-> <<>>,acyclic |-> TRUE,l |-> 477,eObj |-> <<>>,nextE |-> 0]),
    ([res |-> "ok",cacheV |-> FALSE,nodes |-> {0, 1},cacheR |-> FALSE,nextN |-> 2,edges |-> <<>>,acyclic |-> TRUE,l |-> 478,eObj |-> <<>>,nextE |-> 0]),
    ([res |-> "ok",cacheV |-> FALSE,nodes |-> {0, 1, 2},cacheR |-> FALSE,nextN |-> 3,edges |-> <<>>,acyclic |-> TRUE,l |-> 479,eObj |-> <<>>,nextE |-> 0]),
    ([res |-> "ok",cacheV |-> FALSE,nodes |-> {0, 1, 2, 3},cacheR |-> FALSE,nextN |-> 4,edges |-> <<>>,acyclic |-> TRUE,l |-> 480,eObj |-> <<>>,nextE |-> 0]),
    ([res |-> "ok",cacheV |-> FALSE,nodes |-> {0, 1, 2, 3, 4},cacheR |-> FALSE,nextN |-> 5,edges |-> <<>>,acyclic |-> TRUE,l |-> 481,eObj |-> <<>>,nextE |-> 0]),
    ([res |-> "ok",cacheV |-> FALSE,nodes |-> {0, 1, 2, 3, 4, 5},cacheR |-> FALSE,nextN |-> 6,edges |-> <<>>,acyclic |-> TRUE,l |-> 482,eObj |-> <<>>,nextE |-> 0]),
    ([res |-> "ok",cacheV |-> FALSE,nodes |-> {0, 1, 2, 3, 4, 5},cacheR |-> FALSE,nextN |-> 6,edges |-> (0 :> <<1, 5>>),acyclic |-> TRUE,l |-> 483,eObj |-> (0 :> 1),nextE |-> 1]),
    ([res |-> "ok",cacheV |-> FALSE,nodes |-> {0, 1, 2, 3, 4, 5},cacheR |-> FALSE,nextN |-> 6,edges |-> (0 :> <<1, 5>> @@ 1 :> <<3, 5>>),acyclic |-> TRUE,l |-> 484,eObj |-> (0 :> 1),nextE |-> 2]),
    ([res |-> "T",cacheV |-> TRUE,nodes |-> {0, 1, 2, 3, 4, 5},cacheR |-> FALSE,nextN |-> 6,edges |-> (0 :> <<1, 5>> @@ 1 :> <<3, 5>>),acyclic |-> TRUE,l |-> 485,eObj |-> (0 :> 1),nextE |-> 2]),
    ([res |-> "ok",cacheV |-> FALSE,nodes |-> {0, 1, 2, 3, 4, 5},cacheR |-> FALSE,nextN |-> 6,edges |-> (0 :> <<1, 5>> @@ 1 :> <<3, 5>> @@ 2 :> <<1, 0>>),acyclic |-> TRUE,l |-> 486,eObj |-> (0 :> 1 @@ 2 :> 2),nextE |-> 3]),
    ([res |-> "ok",cacheV |-> FALSE,nodes |-> {0, 1, 2, 3, 4, 5},cacheR |-> FALSE,nextN |-> 6,edges |-> (0 :> <<1, 5>> @@ 1 :> <<3, 5>> @@ 2 :> <<1, 0>> @@ 3 :> <<3, 4>>),acyclic |-> TRUE,l |-> 487,eObj |-> (0 :> 1 @@ 2 :> 2),nextE |-> 4]),
    ([res |-> "T",cacheV |-> TRUE,nodes |-> {0, 1, 2, 3, 4, 5},cacheR |-> FALSE,nextN |-> 6,edges |-> (0 :> <<1, 5>> @@ 1 :> <<3, 5>> @@ 2 :> <<1, 0>> @@ 3 :> <<3, 4>>),acyclic |-> TRUE,l |-> 488,eObj |-> (0 :> 1 @@ 2 :> 2),nextE |-> 4]),
    ([res |-> "raise",cacheV |-> TRUE,nodes |-> {0, 1, 2, 3, 4, 5},cacheR |-> FALSE,nextN |-> 6,edges |-> (0 :> <<1, 5>> @@ 1 :> <<3, 5>> @@ 2 :> <<1, 0>> @@ 3 :> <<3, 4>>),acyclic |-> TRUE,l |-> 489,eObj |-> (0 :> 1 @@ 2 :> 2),nextE |-> 4]),
    ([res |-> "raise",cacheV |-> TRUE,nodes |-> {0, 1, 2, 3, 4, 5},cacheR |-> FALSE,nextN |-> 6,edges |-> (0 :> <<1, 5>> @@ 1 :> <<3, 5>> @@ 2 :> <<1, 0>> @@ 3 :> <<3, 4>>),acyclic |-> TRUE,l |-> 490,eObj |-> (0 :> 1 @@ 2 :> 2),nextE |-> 4]),
    ([res |-> "T",cacheV |-> TRUE,nodes |-> {0, 1, 2, 3, 4, 5},cacheR |-> FALSE,nextN |-> 6,edges |-> (0 :> <<1, 5>> @@ 1 :> <<3, 5>> @@ 2 :> <<1, 0>> @@ 3 :> <<3, 4>>),acyclic |-> TRUE,l |-> 491,eObj |-> (0 :> 1 @@ 2 :> 2),nextE |-> 4]),
    ([res |-> "RF",cacheV |-> TRUE,nodes |-> {0, 1, 2, 3, 4, 5},cacheR |-> FALSE,nextN |-> 6,edges |-> (0 :> <<1, 5>> @@ 1 :> <<3, 5>> @@ 2 :> <<1, 0>> @@ 3 :> <<3, 4>>),acyclic |-> TRUE,l |-> 492,eObj |-> (0 :> 1 @@ 2 :> 2),nextE |-> 4]),
    ([res |-> "ok",cacheV |-> TRUE,nodes |-> {0, 1, 2, 3, 4, 5},cacheR |-> FALSE,nextN |-> 6,edges |-> (0 :> <<1, 5>> @@ 1 :> <<3, 5>> @@ 2 :> <<1, 0>> @@ 3 :> <<3, 4>>),acyclic |-> TRUE,l |-> 493,eObj |-> (0 :> 1 @@ 2 :> 2),nextE |-> 4]),
    ([res |-> "ok",cacheV |-> TRUE,nodes |-> {0, 1, 2, 3, 4, 5},cacheR |-> FALSE,nextN |-> 6,edges |-> (0 :> <<1, 5>> @@ 1 :> <<3, 5>> @@ 2 :> <<1, 0>> @@ 3 :> <<3, 4>>),acyclic |-> TRUE,l |-> 494,eObj |-> (0 :> 1 @@ 2 :> 2),nextE |-> 4]),
    ([res |-> "ok",cacheV |-> TRUE,nodes |-> {0, 1, 2, 3, 4, 5},cacheR |-> FALSE,nextN |-> 6,edges |-> (0 :> <<1, 5>> @@ 1 :> <<3, 5>> @@ 2 :> <<1, 0>> @@ 3 :> <<3, 4>>),acyclic |-> TRUE,l |-> 495,eObj |-> (0 :> 1 @@ 2 :> 2),nextE |-> 4]),
    ([res |-> "ok",cacheV |-> TRUE,nodes |-> {0, 1, 2, 3, 4, 5},cacheR |-> FALSE,nextN |-> 6,edges |-> (0 :> <<1, 5>> @@ 1 :> <<3, 5>> @@ 2 :> <<1, 0>> @@ 3 :> <<3, 4>>),acyclic |-> TRUE,l |-> 496,eObj |-> (0 :> 1 @@ 2 :> 2),nextE |-> 4]),
    ([res |-> "ok",cacheV |-> TRUE,nodes |-> {0, 1, 2, 3, 4, 5},cacheR |-> FALSE,nextN |-> 6,edges |-> (0 :> <<1, 5>> @@ 1 :> <<3, 5>> @@ 2 :> <<1, 0>> @@ 3 :> <<3, 4>>),acyclic |-> TRUE,l |-> 497,eObj |-> (0 :> 1 @@ 2 :> 2),nextE |-> 4]),
    ([res |-> "ok",cacheV |-> TRUE,nodes |-> {0, 1, 2, 3, 4, 5},cacheR |-> FALSE,nextN |-> 6,edges |-> (0 :> <<1, 5>> @@ 1 :> <<3, 5>> @@ 2 :> <<1, 0>> @@ 3 :> <<3, 4>>),acyclic |-> TRUE,l |-> 498,eObj |-> (0 :> 1 @@ 2 :> 2),nextE |-> 4]),
    ([res |-> "ok",cacheV |-> TRUE,nodes |-> {0, 1, 2, 3, 4, 5},cacheR |-> FALSE,nextN |-> 6,edges |-> (0 :> <<1, 5>> @@ 1 :> <<3, 5>> @@ 2 :> <<1, 0>> @@ 3 :> <<3, 4>>),acyclic |-> TRUE,l |-> 499,eObj |-> (0 :> 1 @@ 2 :> 2),nextE |-> 4]),
    ([res |-> "ok",cacheV |-> TRUE,nodes |-> {0, 1, 2, 3, 4, 5},cacheR |-> FALSE,nextN |-> 6,edges |-> (0 :> <<1, 5>> @@ 1 :> <<3, 5>> @@ 2 :> <<1, 0>> @@ 3 :> <<3, 4>>),acyclic |-> TRUE,l |-> 500,eObj |-> (0 :> 1 @@ 2 :> 2),nextE |-> 4]),
    ([res |-> "ok",cacheV |-> FALSE,nodes |-> {},cacheR |-> FALSE,nextN |-> 0,edges |-> <<>>,acyclic |-> TRUE,l |-> 501,eObj |-> <<>>,nextE |-> 0]),
    ([res |-> "RT",cacheV |-> FALSE,nodes |-> {},cacheR |-> FALSE,nextN |-> 0,edges |-> <<>>,acyclic |-> TRUE,l |-> 502,eObj |-> <<>>,nextE |-> 0]),
    ([res |-> "raise",cacheV |-> FALSE,nodes |-> {},cacheR |-> FALSE,nextN |-> 0,edges |-> <<>>,acyclic |-> TRUE,l |-> 503,eObj |-> <<>>,nextE |-> 0]),
    ([res |-> "raise",cacheV |-> FALSE,nodes |-> {},cacheR |-> FALSE,nextN |-> 0,edges |-> <<>>,acyclic |-> TRUE,l |-> 504,eObj |-> <<>>,nextE |-> 0]),
    ([res |-> "raise",cacheV |-> FALSE,nodes |-> {},cacheR |-> FALSE,nextN |-> 0,edges |-> <<>>,acyclic |-> TRUE,l |-> 505,eObj |-> <<>>,nextE |-> 0]),
    ([res |-> "ok",cacheV |-> FALSE,nodes |-> {0},cacheR |-> FALSE,nextN |-> 1,edges |-> <<>>,acyclic |-> TRUE,l |-> 506,eObj |-> <<>>,nextE |-> 0]),
    ([res |-> "ok",cacheV |-> FALSE,nodes |-> {0},cacheR |-> FALSE,nextN |-> 1,edges |-> (0 :> <<0, 0>>),acyclic |-> FALSE,l |-> 507,eObj |-> (0 :> 1),nextE |-> 1]),
    ([res |-> "ok",cacheV |-> FALSE,nodes |-> {0},cacheR |-> FALSE,nextN |-> 1,edges |-> <<>>,acyclic |-> TRUE,l |-> 508,eObj |-> <<>>,nextE |-> 1]),
    ([res |-> "raise",cacheV |-> FALSE,nodes |-> {0},cacheR |-> FALSE,nextN |-> 1,edges |-> <<>>,acyclic |-> TRUE,l |-> 509,eObj |-> <<>>,nextE |-> 1]),
    ([res |-> "ok",cacheV |-> FALSE,nodes |-> {0},cacheR |-> FALSE,nextN |-> 1,edges |-> <<<<0, 0>>>>,acyclic |-> FALSE,l |-> 510,eObj |-> <<>>,nextE |-> 2]),
    ([res |-> "RT",cacheV |-> FALSE,nodes |-> {0},cacheR |-> FALSE,nextN |-> 1,edges |-> <<<<0, 0>>>>,acyclic |-> FALSE,l |-> 511,eObj |-> <<>>,nextE |-> 2]),
    ([res |-> "ok",cacheV |-> FALSE,nodes |-> {0, 1},cacheR |-> FALSE,nextN |-> 2,edges |-> <<<<0, 0>>>>,acyclic |-> FALSE,l |-> 512,eObj |-> <<>>,nextE |-> 2]),
    ([res |-> "raise",cacheV |-> FALSE,nodes |-> {0, 1},cacheR |-> FALSE,nextN |-> 2,edges |-> <<<<0, 0>>>>,acyclic |-> FALSE,l |-> 513,eObj |-> <<>>,nextE |-> 2]),
    ([res |-> "ok",cacheV |-> FALSE,nodes |-> {0, 1},cacheR |-> FALSE,nextN |-> 2,edges |-> <<<<0, 0>>>>,acyclic |-> FALSE,l |-> 514,eObj |-> <<>>,nextE |-> 2]),
    ([res |-> "ok",cacheV |-> FALSE,nodes |-> {0, 1},cacheR |-> FALSE,nextN |-> 2,edges |-> <<<<0, 0>>>>,acyclic |-> FALSE,l |-> 515,eObj |-> <<>>,nextE |-> 2]),
    ([res |-> "ok",cacheV |-> FALSE,nodes |-> {0, 1},cacheR |-> FALSE,nextN |-> 2,edges |-> <<<<0, 0>>, <<0, 1>>>>,acyclic |-> FALSE,l |-> 516,eObj |-> <<>>,nextE |-> 3]),
    ([res |-> "raise",cacheV |-> FALSE,nodes |-> {0, 1},cacheR |-> FALSE,nextN |-> 2,edges |-> <<<<0, 0>>, <<0, 1>>>>,acyclic |-> FALSE,l |-> 517,eObj |-> <<>>,nextE |-> 3]),
    ([res |-> "ok",cacheV |-> FALSE,nodes |-> {0, 1},cacheR |-> FALSE,nextN |-> 2,edges |-> <<<<0, 0>>, <<0, 1>>, <<1, 1>>>>,acyclic |-> FALSE,l |-> 518,eObj |-> (3 :> 1),nextE |-> 4]),
    ([res |-> "ok",cacheV |-> FALSE,nodes |-> {0, 1},cacheR |-> FALSE,nextN |-> 2,edges |-> <<<<0, 0>>, <<0, 1>>>>,acyclic |-> FALSE,l |-> 519,eObj |-> <<>>,nextE |-> 4]),
    ([res |-> "ok",cacheV |-> FALSE,nodes |-> {0, 1},cacheR |-> FALSE,nextN |-> 2,edges |-> <<<<0, 0>>, <<0, 1>>>>,acyclic |-> FALSE,l |-> 520,eObj |-> <<>>,nextE |-> 4]),
    ([res |-> "ok",cacheV |-> FALSE,nodes |-> {0, 1, 2},cacheR |-> FALSE,nextN |-> 3,edges |-> <<<<0, 0>>, <<0, 1>>>>,acyclic |-> FALSE,l |-> 521,eObj |-> <<>>,nextE |-> 4]),
    ([res |-> "F",cacheV |-> FALSE,nodes |-> {0, 1, 2},cacheR |-> FALSE,nextN |-> 3,edges |-> <<<<0, 0>>, <<0, 1>>>>,acyclic |-> FALSE,l |-> 522,eObj |-> <<>>,nextE |-> 4]),
    ([res |-> "RT",cacheV |-> FALSE,nodes |-> {0, 1, 2},cacheR |-> TRUE,nextN |-> 3,edges |-> <<<<0, 0>>, <<0, 1>>>>,acyclic |-> FALSE,l |-> 523,eObj |-> <<>>,nextE |-> 4]),
    ([res |-> "ok",cacheV |-> FALSE,nodes |-> {0, 1, 2, 3},cacheR |-> FALSE,nextN |-> 4,edges |-> <<<<0, 0>>, <<0, 1>>>>,acyclic |-> FALSE,l |-> 524,eObj |-> <<>>,nextE |-> 4]),
    ([res |-> "raise",cacheV |-> FALSE,nodes |-> {0, 1, 2, 3},cacheR |-> FALSE,nextN |-> 4,edges |-> <<<<0, 0>>, <<0, 1>>>>,acyclic |-> FALSE,l |-> 525,eObj |-> <<>>,nextE |-> 4]),
    ([res |-> "ok",cacheV |-> FALSE,nodes |-> {0, 1, 2, 3},cacheR |-> FALSE,nextN |-> 4,edges |-> <<<<0, 0>>, <<0, 1>>>>,acyclic |-> FALSE,l |-> 526,eObj |-> <<>>,nextE |-> 4]),
    ([res |-> "ok",cacheV |-> FALSE,nodes |-> {0, 1, 2, 3},cacheR |-> FALSE,nextN |-> 4,edges |-> (1 :> <<0, 0>> @@ 2 :> <<0, 1>> @@ 4 :> <<2, 3>>),acyclic |-> FALSE,l |-> 527,eObj |-> <<>>,nextE |-> 5]),
    ([res |-> "ok",cacheV |-> FALSE,nodes |-> {0, 1, 2, 3},cacheR |-> FALSE,nextN |-> 4,edges |-> (1 :> <<0, 0>> @@ 2 :> <<0, 1>> @@ 4 :> <<2, 3>> @@ 5 :> <<2, 2>>),acyclic |-> FALSE,l |-> 528,eObj |-> <<>>,nextE |-> 6]),
    ([res |-> "F",cacheV |-> FALSE,nodes |-> {0, 1, 2, 3},cacheR |-> FALSE,nextN |-> 4,edges |-> (1 :> <<0, 0>> @@ 2 :> <<0, 1>> @@ 4 :> <<2, 3>> @@ 5 :> <<2, 2>>),acyclic |-> FALSE,l |-> 529,eObj |-> <<>>,nextE |-> 6]),
    ([res |-> "RT",cacheV |-> FALSE,nodes |-> {0, 1, 2, 3},cacheR |-> FALSE,nextN |-> 4,edges |-> (1 :> <<0, 0>> @@ 2 :> <<0, 1>> @@ 4 :> <<2, 3>> @@ 5 :> <<2, 2>>),acyclic |-> FALSE,l |-> 530,eObj |-> <<>>,nextE |-> 6]),
    ([res |-> "ok",cacheV |-> FALSE,nodes |-> {0, 1, 2, 3},cacheR |-> FALSE,nextN |-> 4,edges |-> (2 :> <<0, 1>> @@ 4 :> <<2, 3>> @@ 5 :> <<2, 2>>),acyclic |-> FALSE,l |-> 531,eObj |-> <<>>,nextE |-> 6]),
    ([res |-> "ok",cacheV |-> FALSE,nodes |-> {0, 1, 2, 3},cacheR |-> FALSE,nextN |-> 4,edges |-> (2 :> <<0, 1>> @@ 4 :> <<2, 3>> @@ 5 :> <<2, 2>> @@ 6 :> <<1, 3>>),acyclic |-> FALSE,l |-> 532,eObj |-> (6 :> 1),nextE |-> 7]),
    ([res |-> "ok",cacheV |-> FALSE,nodes |-> {0, 1, 2, 3, 4},cacheR |-> FALSE,nextN |-> 5,edges |-> (2 :> <<0, 1>> @@ 4 :> <<2, 3>> @@ 5 :> <<2, 2>> @@ 6 :> <<1, 3>>),acyclic |-> FALSE,l |-> 533,eObj |-> (6 :> 1),nextE |-> 7]),
    ([res |-> "ok",cacheV |-> FALSE,nodes |-> {0, 1, 2, 4},cacheR |-> FALSE,nextN |-> 5,edges |-> (2 :> <<0, 1>> @@ 5 :> <<2, 2>>),acyclic |-> FALSE,l |-> 534,eObj |-> <<>>,nextE |-> 7]),
    ([res |-> "ok",cacheV |-> FALSE,nodes |-> {0, 1, 2, 4},cacheR |-> FALSE,nextN |-> 5,edges |-> (2 :> <<0, 1>>),acyclic |-> TRUE,l |-> 535,eObj |-> <<>>,nextE |-> 7]),
    ([res |-> "ok",cacheV |-> FALSE,nodes |-> {0, 1, 2, 4},cacheR |-> FALSE,nextN |-> 5,edges |-> <<>>,acyclic |-> TRUE,l |-> 536,eObj |-> <<>>,nextE |-> 7]),
    ([res |-> "ok",cacheV |-> FALSE,nodes |-> {0, 1, 2, 4, 5},cacheR |-> FALSE,nextN |-> 6,edges |-> <<>>,acyclic |-> TRUE,l |-> 537,eObj |-> <<>>,nextE |-> 7]),
    ([res |-> "ok",cacheV |-> FALSE,nodes |-> {0, 1, 2, 4, 5},cacheR |-> FALSE,nextN |-> 6,edges |-> (7 :> <<0, 2>>),acyclic |-> TRUE,l |-> 538,eObj |-> <<>>,nextE |-> 8]),
    ([res |-> "ok",cacheV |-> FALSE,nodes |-> {0, 1, 2, 4, 5},cacheR |-> FALSE,nextN |-> 6,edges |-> (7 :> <<0, 2>> @@ 8 :> <<4, 0>>),acyclic |-> TRUE,l |-> 539,eObj |-> <<>>,nextE |-> 9]),
    ([res |-> "T",cacheV |-> TRUE,nodes |-> {0, 1, 2, 4, 5},cacheR |-> FALSE,nextN |-> 6,edges |-> (7 :> <<0, 2>> @@ 8 :> <<4, 0>>),acyclic |-> TRUE,l |-> 540,eObj |-> <<>>,nextE |-> 9]),
    ([res |-> "T",cacheV |-> TRUE,nodes |-> {0, 1, 2, 4, 5},cacheR |-> FALSE,nextN |-> 6,edges |-> (7 :> <<0, 2>> @@ 8 :> <<4, 0>>),acyclic |-> TRUE,l |-> 541,eObj |-> <<>>,nextE |-> 9]),
    ([res |-> "RF",cacheV |-> TRUE,nodes |-> {0, 1, 2, 4, 5},cacheR |-> FALSE,nextN |-> 6,edges |-> (7 :> <<0, 2>> @@ 8 :> <<4, 0>>),acyclic |-> TRUE,l |-> 542,eObj |-> <<>>,nextE |-> 9]),
    ([res |-> "ok",cacheV |-> TRUE,nodes |-> {0, 1, 2, 4, 5},cacheR |-> FALSE,nextN |-> 6,edges |-> (7 :> <<0, 2>> @@ 8 :> <<4, 0>>),acyclic |-> TRUE,l |-> 543,eObj |-> <<>>,nextE |-> 9]),
    ([res |-> "ok",cacheV |-> TRUE,nodes |-> {0, 1, 2, 4, 5},cacheR |-> FALSE,nextN |-> 6,edges |-> (7 :> <<0, 2>> @@ 8 :> <<4, 0>>),acyclic |-> TRUE,l |-> 544,eObj |-> <<>>,nextE |-> 9]),
    ([res |-> "ok",cacheV |-> TRUE,nodes |-> {0, 1, 2, 4, 5},cacheR |-> FALSE,nextN |-> 6,edges |-> (7 :> <<0, 2>> @@ 8 :> <<4, 0>>),acyclic |-> TRUE,l |-> 545,eObj |-> <<>>,nextE |-> 9]),
    ([res |-> "ok",cacheV |-> TRUE,nodes |-> {0, 1, 2, 4, 5},cacheR |-> FALSE,nextN |-> 6,edges |-> (7 :> <<0, 2>> @@ 8 :> <<4, 0>>),acyclic |-> TRUE,l |-> 546,eObj |-> <<>>,nextE |-> 9]),
    ([res |-> "ok",cacheV |-> TRUE,nodes |-> {0, 1, 2, 4, 5},cacheR |-> FALSE,nextN |-> 6,edges |-> (7 :> <<0, 2>> @@ 8 :> <<4, 0>>),acyclic |-> TRUE,l |-> 547,eObj |-> <<>>,nextE |-> 9]),
    ([res |-> "ok",cacheV |-> TRUE,nodes |-> {0, 1, 2, 4, 5},cacheR |-> FALSE,nextN |-> 6,edges |-> (7 :> <<0, 2>> @@ 8 :> <<4, 0>>),acyclic |-> TRUE,l |-> 548,eObj |-> <<>>,nextE |-> 9]),
    ([res |-> "ok",cacheV |-> TRUE,nodes |-> {0, 1, 2, 4, 5},cacheR |-> FALSE,nextN |-> 6,edges |-> (7 :> <<0, 2>> @@ 8 :> <<4, 0>>),acyclic |-> TRUE,l |-> 549,eObj |-> <<>>,nextE |-> 9]),
    ([res |-> "ok",cacheV |-> FALSE,nodes |-> {},cacheR |-> FALSE,nextN |-> 0,edges |-> <<>>,acyclic |-> TRUE,l |-> 550,eObj |-> <<>>,nextE |-> 0]),
    ([res |-> "ok",cacheV |-> FALSE,nodes |-> {0},cacheR |-> FALSE,nextN |-> 1,edges |-> <<>>,acyclic |-> TRUE,l |-> 551,eObj |-> <<>>,nextE |-> 0]),
    ([res |-> "ok",cacheV |-> FALSE,nodes |-> {0, 1},cacheR |-> FALSE,nextN |-> 2,edges |-> <<>>,acyclic |-> TRUE,l |-> 552,eObj |-> <<>>,nextE |-> 0]),
    ([res |-> "ok",cacheV |-> FALSE,nodes |-> {0, 1, 2},cacheR |-> FALSE,nextN |-> 3,edges |-> <<>>,acyclic |-> TRUE,l |-> 553,eObj |-> <<>>,nextE |-> 0]),
    ([res |-> "ok",cacheV |-> FALSE,nodes |-> {0, 1, 2, 3},cacheR |-> FALSE,nextN |-> 4,edges |-> <<>>,acyclic |-> TRUE,l |-> 554,eObj |-> <<>>,nextE |-> 0]),
    ([res |-> "ok",cacheV |-> FALSE,nodes |-> {0, 1, 2, 3, 4},cacheR |-> FALSE,nextN |-> 5,edges |-> <<>>,acyclic |-> TRUE,l |-> 555,eObj |-> <<>>,nextE |-> 0]),
    ([res |-> "ok",cacheV |-> FALSE,nodes |-> {0, 1, 2, 3, 4, 5},cacheR |-> FALSE,nextN |-> 6,edges |-> <<>>,acyclic |-> TRUE,l |-> 556,eObj |-> <<>>,nextE |-> 0]),
    ([res |-> "ok",cacheV |-> FALSE,nodes |-> {0, 1, 2, 3, 4, 5},cacheR |-> FALSE,nextN |-> 6,edges |-> (0 :> <<5, 3>>),acyclic |-> TRUE,l |-> 557,eObj |-> (0 :> 1),nextE |-> 1]),
    ([res |-> "T",cacheV |-> TRUE,nodes |-> {0, 1, 2, 3, 4, 5},cacheR |-> FALSE,nextN |-> 6,edges |-> (0 :> <<5, 3>>),acyclic |-> TRUE,l |-> 558,eObj |-> (0 :> 1),nextE |-> 1]),
    ([res |-> "ok",cacheV |-> FALSE,nodes |-> {0, 1, 2, 3, 4, 5},cacheR |-> FALSE,nextN |-> 6,edges |-> (0 :> <<5, 3>> @@ 1 :> <<0, 5>>),acyclic |-> TRUE,l |-> 559,eObj |-> (0 :> 1 @@ 1 :> 2),nextE |-> 2]),
    ([res |-> "ok",cacheV |-> FALSE,nodes |-> {0, 1, 2, 3, 4, 5},cacheR |-> FALSE,nextN |-> 6,edges |-> (0 :> <<5, 3>> @@ 1 :> <<0, 5>> @@ 2 :> <<4, 2>>),acyclic |-> TRUE,l |-> 560,eObj |-> (0 :> 1 @@ 1 :> 2),nextE |-> 3]),
    ([res |-> "T",cacheV |-> TRUE,nodes |-> {0, 1, 2, 3, 4, 5},cacheR |-> FALSE,nextN |-> 6,edges |-> (0 :> <<5, 3>> @@ 1 :> <<0, 5>> @@ 2 :> <<4, 2>>),acyclic |-> TRUE,l |-> 561,eObj |-> (0 :> 1 @@ 1 :> 2),nextE |-> 3]),
    ([res |-> "ok",cacheV |-> FALSE,nodes |-> {0, 1, 2, 3, 4, 5},cacheR |-> FALSE,nextN |-> 6,edges |-> (0 :> <<5, 3>> @@ 1 :> <<0, 5>> @@ 2 :> <<4, 2>> @@ 3 :> <<0, 3>>),acyclic |-> TRUE,l |-> 562,eObj |-> (0 :> 1 @@ 1 :> 2 @@ 3 :> 3),nextE |-> 4]),
    ([res |-> "ok",cacheV |-> FALSE,nodes |-> {0, 1, 2, 3, 4, 5},cacheR |-> FALSE,nextN |-> 6,edges |-> (0 :> <<5, 3>> @@ 1 :> <<0, 5>> @@ 2 :> <<4, 2>> @@ 3 :> <<0, 3>> @@ 4 :> <<3, 1>>),acyclic |-> TRUE,l |-> 563,eObj |-> (0 :> 1 @@ 1 :> 2 @@ 3 :> 3),nextE |-> 5]),
    ([res |-> "RF",cacheV |-> FALSE,nodes |-> {0, 1, 2, 3, 4, 5},cacheR |-> FALSE,nextN |-> 6,edges |-> (0 :> <<5, 3>> @@ 1 :> <<0, 5>> @@ 2 :> <<4, 2>> @@ 3 :> <<0, 3>> @@ 4 :> <<3, 1>>),acyclic |-> TRUE,l |-> 564,eObj |-> (0 :> 1 @@ 1 :> 2 @@ 3 :> 3),nextE |-> 5]),
    ([res |-> "raise",cacheV |-> FALSE,nodes |-> {0, 1, 2, 3, 4, 5},cacheR |-> FALSE,nextN |-> 6,edges |-> (0 :> <<5, 3>> @@ 1 :> <<0, 5>> @@ 2 :> <<4, 2>> @@ 3 :> <<0, 3>> @@ 4 :> <<3, 1>>),acyclic |-> TRUE,l |-> 565,eObj |-> (0 :> 1 @@ 1 :> 2 @@ 3 :> 3),nextE |-> 5]),
    ([res |-> "ok",cacheV |-> FALSE,nodes |-> {0, 1, 2, 3, 4, 5},cacheR |-> FALSE,nextN |-> 6,edges |-> (0 :> <<5, 3>> @@ 1 :> <<0, 5>> @@ 2 :> <<4, 2>> @@ 3 :> <<0, 3>> @@ 4 :> <<3, 1>> @@ 5 :> <<3, 0>>),acyclic |-> FALSE,l |-> 566,eObj |-> (0 :> 1 @@ 1 :> 2 @@ 3 :> 3 @@ 5 :> 4),nextE |-> 6]),
    ([res |-> "RT",cacheV |-> FALSE,nodes |-> {0, 1, 2, 3, 4, 5},cacheR |-> TRUE,nextN |-> 6,edges |-> (0 :> <<5, 3>> @@ 1 :> <<0, 5>> @@ 2 :> <<4, 2>> @@ 3 :> <<0, 3>> @@ 4 :> <<3, 1>> @@ 5 :> <<3, 0>>),acyclic |-> FALSE,l |-> 567,eObj |-> (0 :> 1 @@ 1 :> 2 @@ 3 :> 3 @@ 5 :> 4),nextE |-> 6]),
    ([res |-> "raise",cacheV |-> FALSE,nodes |-> {0, 1, 2, 3, 4, 5},cacheR |-> TRUE,nextN |-> 6,edges |-> (0 :> <<5, 3>> @@ 1 :> <<0, 5>> @@ 2 :> <<4, 2>> @@ 3 :> <<0, 3>> @@ 4 :> <<3, 1>> @@ 5 :> <<3, 0>>),acyclic |-> FALSE,l |-> 568,eObj |-> (0 :> 1 @@ 1 :> 2 @@ 3 :> 3 @@ 5 :> 4),nextE |-> 6]),
    ([res |-> "raise",cacheV |-> FALSE,nodes |-> {0, 1, 2, 3, 4, 5},cacheR |-> TRUE,nextN |-> 6,edges |-> (0 :> <<5, 3>> @@ 1 :> <<0, 5>> @@ 2 :> <<4, 2>> @@ 3 :> <<0, 3>> @@ 4 :> <<3, 1>> @@ 5 :> <<3, 0>>),acyclic |-> FALSE,l |-> 569,eObj |-> (0 :> 1 @@ 1 :> 2 @@ 3 :> 3 @@ 5 :> 4),nextE |-> 6]),
    ([res |-> "F",cacheV |-> FALSE,nodes |-> {0, 1, 2, 3, 4, 5},cacheR |-> TRUE,nextN |-> 6,edges |-> (0 :> <<5, 3>> @@ 1 :> <<0, 5>> @@ 2 :> <<4, 2>> @@ 3 :> <<0, 3>> @@ 4 :> <<3, 1>> @@ 5 :> <<3, 0>>),acyclic |-> FALSE,l |-> 570,eObj |-> (0 :> 1 @@ 1 :> 2 @@ 3 :> 3 @@ 5 :> 4),nextE |-> 6]),
    ([res |-> "F",cacheV |-> FALSE,nodes |-> {0, 1, 2, 3, 4, 5},cacheR |-> TRUE,nextN |-> 6,edges |-> (0 :> <<5, 3>> @@ 1 :> <<0, 5>> @@ 2 :> <<4, 2>> @@ 3 :> <<0, 3>> @@ 4 :> <<3, 1>> @@ 5 :> <<3, 0>>),acyclic |-> FALSE,l |-> 571,eObj |-> (0 :> 1 @@ 1 :> 2 @@ 3 :> 3 @@ 5 :> 4),nextE |-> 6]),
    ([res |-> "RT",cacheV |-> FALSE,nodes |-> {0, 1, 2, 3, 4, 5},cacheR |-> TRUE,nextN |-> 6,edges |-> (0 :> <<5, 3>> @@ 1 :> <<0, 5>> @@ 2 :> <<4, 2>> @@ 3 :> <<0, 3>> @@ 4 :> <<3, 1>> @@ 5 :> <<3, 0>>),acyclic |-> FALSE,l |-> 572,eObj |-> (0 :> 1 @@ 1 :> 2 @@ 3 :> 3 @@ 5 :> 4),nextE |-> 6]),
    ([res |-> "ok",cacheV |-> FALSE,nodes |-> {0, 1, 2, 3, 4, 5},cacheR |-> TRUE,nextN |-> 6,edges |-> (0 :> <<5, 3>> @@ 1 :> <<0, 5>> @@ 2 :> <<4, 2>> @@ 3 :> <<0, 3>> @@ 4 :> <<3, 1>> @@ 5 :> <<3, 0>>),acyclic |-> FALSE,l |-> 573,eObj |-> (0 :> 1 @@ 1 :> 2 @@ 3 :> 3 @@ 5 :> 4),nextE |-> 6]),
    ([res |-> "raise",cacheV |-> FALSE,nodes |-> {0, 1, 2, 3, 4, 5},cacheR |-> TRUE,nextN |-> 6,edges |-> (0 :> <<5, 3>> @@ 1 :> <<0, 5>> @@ 2 :> <<4, 2>> @@ 3 :> <<0, 3>> @@ 4 :> <<3, 1>> @@ 5 :> <<3, 0>>),acyclic |-> FALSE,l |-> 574,eObj |-> (0 :> 1 @@ 1 :> 2 @@ 3 :> 3 @@ 5 :> 4),nextE |-> 6]),
    ([res |-> "ok",cacheV |-> FALSE,nodes |-> {},cacheR |-> FALSE,nextN |-> 0,edges |-> <<>>,acyclic |-> TRUE,l |-> 575,eObj |-> <<>>,nextE |-> 0]),
    ([res |-> "raise",cacheV |-> FALSE,nodes |-> {},cacheR |-> FALSE,nextN |-> 0,edges |-> <<>>,acyclic |-> TRUE,l |-> 576,eObj |-> <<>>,nextE |-> 0]),
    ([res |-> "raise",cacheV |-> FALSE,nodes |-> {},cacheR |-> FALSE,nextN |-> 0,edges |-> <<>>,acyclic |-> TRUE,l |-> 577,eObj |-> <<>>,nextE |-> 0]),
    ([res |-> "raise",cacheV |-> FALSE,nodes |-> {},cacheR |-> FALSE,nextN |-> 0,edges |-> <<>>,acyclic |-> TRUE,l |-> 578,eObj |-> <<>>,nextE |-> 0]),
    ([res |-> "ok",cacheV |-> FALSE,nodes |-> {},cacheR |-> FALSE,nextN |-> 0,edges |-> <<>>,acyclic |-> TRUE,l |-> 579,eObj |-> <<>>,nextE |-> 0]),
    ([res |-> "ok",cacheV |-> FALSE,nodes |-> {},cacheR |-> FALSE,nextN |-> 0,edges |-> <<>>,acyclic |-> TRUE,l |-> 580,eObj |-> <<>>,nextE |-> 0]),
    ([res |-> "F",cacheV |-> TRUE,nodes |-> {},cacheR |-> FALSE,nextN |-> 0,edges |-> <<>>,acyclic |-> TRUE,l |-> 581,eObj |-> <<>>,nextE |-> 0]),
    ([res |-> "raise",cacheV |-> TRUE,nodes |-> {},cacheR |-> FALSE,nextN |-> 0,edges |-> <<>>,acyclic |-> TRUE,l |-> 582,eObj |-> <<>>,nextE |-> 0]),
    ([res |-> "F",cacheV |-> TRUE,nodes |-> {},cacheR |-> FALSE,nextN |-> 0,edges |-> <<>>,acyclic |-> TRUE,l |-> 583,eObj |-> <<>>,nextE |-> 0]),
    ([res |-> "raise",cacheV |-> TRUE,nodes |-> {},cacheR |-> FALSE,nextN |-> 0,edges |-> <<>>,acyclic |-> TRUE,l |-> 584,eObj |-> <<>>,nextE |-> 0]),
    ([res |-> "raise",cacheV |-> TRUE,nodes |-> {},cacheR |-> FALSE,nextN |-> 0,edges |-> <<>>,acyclic |-> TRUE,l |-> 585,eObj |-> <<>>,nextE |-> 0]),
    ([res |-> "ok",cacheV |-> FALSE,nodes |-> {0},cacheR |-> FALSE,nextN |-> 1,edges |-> <<>>,acyclic |-> TRUE,l |-> 586,eObj |-> <<>>,nextE |-> 0]),
    ([res |-> "ok",cacheV |-> FALSE,nodes |-> {0},cacheR |-> FALSE,nextN |-> 1,edges |-> (0 :> <<0, 0>>),acyclic |-> FALSE,l |-> 587,eObj |-> (0 :> 1),nextE |-> 1]),
    ([res |-> "raise",cacheV |-> FALSE,nodes |-> {0},cacheR |-> FALSE,nextN |-> 1,edges |-> (0 :> <<0, 0>>),acyclic |-> FALSE,l |-> 588,eObj |-> (0 :> 1),nextE |-> 1]),
    ([res |-> "raise",cacheV |-> FALSE,nodes |-> {0},cacheR |-> FALSE,nextN |-> 1,edges |-> (0 :> <<0, 0>>),acyclic |-> FALSE,l |-> 589,eObj |-> (0 :> 1),nextE |-> 1]),
    ([res |-> "raise",cacheV |-> FALSE,nodes |-> {0},cacheR |-> FALSE,nextN |-> 1,edges |-> (0 :> <<0, 0>>),acyclic |-> FALSE,l |-> 590,eObj |-> (0 :> 1),nextE |-> 1]),
    ([res |-> "F",cacheV |-> FALSE,nodes |-> {0},cacheR |-> FALSE,nextN |-> 1,edges |-> (0 :> <<0, 0>>),acyclic |-> FALSE,l |-> 591,eObj |-> (0 :> 1),nextE |-> 1]),
    ([res |-> "ok",cacheV |-> FALSE,nodes |-> {0},cacheR |-> FALSE,nextN |-> 1,edges |-> <<>>,acyclic |-> TRUE,l |-> 592,eObj |-> <<>>,nextE |-> 1]),
    ([res |-> "ok",cacheV |-> FALSE,nodes |-> {0, 1},cacheR |-> FALSE,nextN |-> 2,edges |-> <<>>,acyclic |-> TRUE,l |-> 593,eObj |-> <<>>,nextE |-> 1]),
    ([res |-> "T",cacheV |-> TRUE,nodes |-> {0, 1},cacheR |-> FALSE,nextN |-> 2,edges |-> <<>>,acyclic |-> TRUE,l |-> 594,eObj |-> <<>>,nextE |-> 1]),
    ([res |-> "ok",cacheV |-> FALSE,nodes |-> {0, 1, 2},cacheR |-> FALSE,nextN |-> 3,edges |-> <<>>,acyclic |-> TRUE,l |-> 595,eObj |-> <<>>,nextE |-> 1]),
    ([res |-> "raise",cacheV |-> FALSE,nodes |-> {0, 1, 2},cacheR |-> FALSE,nextN |-> 3,edges |-> <<>>,acyclic |-> TRUE,l |-> 596,eObj |-> <<>>,nextE |-> 1]),
    ([res |-> "RF",cacheV |-> FALSE,nodes |-> {0, 1, 2},cacheR |-> FALSE,nextN |-> 3,edges |-> <<>>,acyclic |-> TRUE,l |-> 597,eObj |-> <<>>,nextE |-> 1]),
    ([res |-> "T",cacheV |-> TRUE,nodes |-> {0, 1, 2},cacheR |-> FALSE,nextN |-> 3,edges |-> <<>>,acyclic |-> TRUE,l |-> 598,eObj |-> <<>>,nextE |-> 1]),
    ([res |-> "T",cacheV |-> TRUE,nodes |-> {0, 1, 2},cacheR |-> FALSE,nextN |-> 3,edges |-> <<>>,acyclic |-> TRUE,l |-> 599,eObj |-> <<>>,nextE |-> 1]),
    ([res |-> "ok",cacheV |-> FALSE,nodes |-> {0, 1, 2},cacheR |-> FALSE,nextN |-> 3,edges |-> <<<<2, 2>>>>,acyclic |-> FALSE,l |-> 600,eObj |-> <<>>,nextE |-> 2]),
    ([res |-> "ok",cacheV |-> FALSE,nodes |-> {0, 1, 2},cacheR |-> FALSE,nextN |-> 3,edges |-> <<<<2, 2>>>>,acyclic |-> FALSE,l |-> 601,eObj |-> <<>>,nextE |-> 2]),
    ([res |-> "RF",cacheV |-> FALSE,nodes |-> {0, 1, 2},cacheR |-> FALSE,nextN |-> 3,edges |-> <<<<2, 2>>>>,acyclic |-> FALSE,l |-> 602,eObj |-> <<>>,nextE |-> 2]),
    ([res |-> "F",cacheV |-> FALSE,nodes |-> {0, 1, 2},cacheR |-> FALSE,nextN |-> 3,edges |-> <<<<2, 2>>>>,acyclic |-> FALSE,l |-> 603,eObj |-> <<>>,nextE |-> 2]),
    ([res |-> "ok",cacheV |-> FALSE,nodes |-> {0, 1, 2},cacheR |-> FALSE,nextN |-> 3,edges |-> <<<<2, 2>>, <<1, 2>>>>,acyclic |-> FALSE,l |-> 604,eObj |-> (2 :> 4),nextE |-> 3]),
    ([res |-> "ok",cacheV |-> FALSE,nodes |-> {0, 1, 2, 3},cacheR |-> FALSE,nextN |-> 4,edges |-> <<<<2, 2>>, <<1, 2>>>>,acyclic |-> FALSE,l |-> 605,eObj |-> (2 :> 4),nextE |-> 3]),
    ([res |-> "ok",cacheV |-> FALSE,nodes |-> {0, 1, 2, 3},cacheR |-> FALSE,nextN |-> 4,edges |-> <<<<2, 2>>, <<1, 2>>>>,acyclic |-> FALSE,l |-> 606,eObj |-> (2 :> 4),nextE |-> 3]),
    ([res |-> "raise",cacheV |-> FALSE,nodes |-> {0, 1, 2, 3},cacheR |-> FALSE,nextN |-> 4,edges |-> <<<<2, 2>>, <<1, 2>>>>,acyclic |-> FALSE,l |-> 607,eObj |-> (2 :> 4),nextE |-> 3]),
    ([res |-> "ok",cacheV |-> FALSE,nodes |-> {0, 1, 2, 3},cacheR |-> FALSE,nextN |-> 4,edges |-> (2 :> <<1, 2>>),acyclic |-> TRUE,l |-> 608,eObj |-> (2 :> 4),nextE |-> 3]),
    ([res |-> "ok",cacheV |-> FALSE,nodes |-> {0, 1, 2, 3},cacheR |-> FALSE,nextN |-> 4,edges |-> (2 :> <<1, 2>> @@ 3 :> <<3, 3>>),acyclic |-> FALSE,l |-> 609,eObj |-> (2 :> 4),nextE |-> 4]),
    ([res |-> "ok",cacheV |-> FALSE,nodes |-> {0, 1, 2, 3},cacheR |-> FALSE,nextN |-> 4,edges |-> (2 :> <<1, 2>> @@ 3 :> <<3, 3>> @@ 4 :> <<3, 0>>),acyclic |-> FALSE,l |-> 610,eObj |-> (2 :> 4 @@ 4 :> 1),nextE |-> 5]),
    ([res |-> "ok",cacheV |-> FALSE,nodes |-> {0, 1, 2, 3},cacheR |-> FALSE,nextN |-> 4,edges |-> (2 :> <<1, 2>> @@ 3 :> <<3, 3>> @@ 4 :> <<3, 0>> @@ 5 :> <<1, 1>>),acyclic |-> FALSE,l |-> 611,eObj |-> (2 :> 4 @@ 4 :> 1),nextE |-> 6]),
    ([res |-> "raise",cacheV |-> FALSE,nodes |-> {0, 1, 2, 3},cacheR |-> FALSE,nextN |-> 4,edges |-> (2 :> <<1, 2>> @@ 3 :> <<3, 3>> @@ 4 :> <<3, 0>> @@ 5 :> <<1, 1>>),acyclic |-> FALSE,l |-> 612,eObj |-> (2 :> 4 @@ 4 :> 1),nextE |-> 6]),
    ([res |-> "raise",cacheV |-> FALSE,nodes |-> {0, 1, 2, 3},cacheR |-> FALSE,nextN |-> 4,edges |-> (2 :> <<1, 2>> @@ 3 :> <<3, 3>> @@ 4 :> <<3, 0>> @@ 5 :> <<1, 1>>),acyclic |-> FALSE,l |-> 613,eObj |-> (2 :> 4 @@ 4 :> 1),nextE |-> 6]),
    ([res |-> "raise",cacheV |-> FALSE,nodes |-> {0, 1, 2, 3},cacheR |-> FALSE,nextN |-> 4,edges |-> (2 :> <<1, 2>> @@ 3 :> <<3, 3>> @@ 4 :> <<3, 0>> @@ 5 :> <<1, 1>>),acyclic |-> FALSE,l |-> 614,eObj |-> (2 :> 4 @@ 4 :> 1),nextE |-> 6]),
    ([res |-> "ok",cacheV |-> FALSE,nodes |-> {0, 1, 2, 3, 4},cacheR |-> FALSE,nextN |-> 5,edges |-> (2 :> <<1, 2>> @@ 3 :> <<3, 3>> @@ 4 :> <<3, 0>> @@ 5 :> <<1, 1>>),acyclic |-> FALSE,l |-> 615,eObj |-> (2 :> 4 @@ 4 :> 1),nextE |-> 6]),
    ([res |-> "F",cacheV |-> FALSE,nodes |-> {0, 1, 2, 3, 4},cacheR |-> FALSE,nextN |-> 5,edges |-> (2 :> <<1, 2>> @@ 3 :> <<3, 3>> @@ 4 :> <<3, 0>> @@ 5 :> <<1, 1>>),acyclic |-> FALSE,l |-> 616,eObj |-> (2 :> 4 @@ 4 :> 1),nextE |-> 6]),
    ([res |-> "RT",cacheV |-> FALSE,nodes |-> {0, 1, 2, 3, 4},cacheR |-> TRUE,nextN |-> 5,edges |-> (2 :> <<1, 2>> @@ 3 :> <<3, 3>> @@ 4 :> <<3, 0>> @@ 5 :> <<1, 1>>),acyclic |-> FALSE,l |-> 617,eObj |-> (2 :> 4 @@ 4 :> 1),nextE |-> 6]),
    ([res |-> "ok",cacheV |-> FALSE,nodes |-> {0, 1, 2, 3, 4},cacheR |-> TRUE,nextN |-> 5,edges |-> (2 :> <<1, 2>> @@ 3 :> <<3, 3>> @@ 4 :> <<3, 0>> @@ 5 :> <<1, 1>>),acyclic |-> FALSE,l |-> 618,eObj |-> (2 :> 4 @@ 4 :> 1),nextE |-> 6]),
    ([res |-> "raise",cacheV |-> FALSE,nodes |-> {0, 1, 2, 3, 4},cacheR |-> TRUE,nextN |-> 5,edges |-> (2 :> <<1, 2>> @@ 3 :> <<3, 3>> @@ 4 :> <<3, 0>> @@ 5 :> <<1, 1>>),acyclic |-> FALSE,l |-> 619,eObj |-> (2 :> 4 @@ 4 :> 1),nextE |-> 6]),
    ([res |-> "ok",cacheV |-> FALSE,nodes |-> {},cacheR |-> FALSE,nextN |-> 0,edges |-> <<>>,acyclic |-> TRUE,l |-> 620,eObj |-> <<>>,nextE |-> 0]),
    ([res |-> "ok",cacheV |-> FALSE,nodes |-> {0},cacheR |-> FALSE,nextN |-> 1,edges |-> <<>>,acyclic |-> TRUE,l |-> 621,eObj |-> <<>>,nextE |-> 0]),
    ([res |-> "ok",cacheV |-> FALSE,nodes |-> {0, 1},cacheR |-> FALSE,nextN |-> 2,edges |-> <<>>,acyclic |-> TRUE,l |-> 622,eObj |-> <<>>,nextE |-> 0]),
    ([res |-> "ok",cacheV |-> FALSE,nodes |-> {0, 1, 2},cacheR |-> FALSE,nextN |-> 3,edges |-> <<>>,acyclic |-> TRUE,l |-> 623,eObj |-> <<>>,nextE |-> 0]),
    ([res |-> "ok",cacheV |-> FALSE,nodes |-> {0, 1, 2, 3},cacheR |-> FALSE,nextN |-> 4,edges |-> <<>>,acyclic |-> TRUE,l |-> 624,eObj |-> <<>>,nextE |-> 0]),
    ([res |-> "ok",cacheV |-> FALSE,nodes |-> {0, 1, 2, 3, 4},cacheR |-> FALSE,nextN |-> 5,edges |-> <<>>,acyclic |-> TRUE,l |-> 625,eObj |-> <<>>,nextE |-> 0]),
    ([res |-> "ok",cacheV |-> FALSE,nodes |-> {0, 1, 2, 3, 4, 5},cacheR |-> FALSE,nextN |-> 6,edges |-> <<>>,acyclic |-> TRUE,l |-> 626,eObj |-> <<>>,nextE |-> 0]),
    ([res |-> "ok",cacheV |-> FALSE,nodes |-> {0, 1, 2, 3, 4, 5},cacheR |-> FALSE,nextN |-> 6,edges |-> (0 :> <<4, 5>>),acyclic |-> TRUE,l |-> 627,eObj |-> (0 :> 1),nextE |-> 1]),
    ([res |-> "ok",cacheV |-> FALSE,nodes |-> {0, 1, 2, 3, 4, 5},cacheR |-> FALSE,nextN |-> 6,edges |-> (0 :> <<4, 5>> @@ 1 :> <<5, 3>>),acyclic |-> TRUE,l |-> 628,eObj |-> (0 :> 1),nextE |-> 2]),
    ([res |-> "RF",cacheV |-> FALSE,nodes |-> {0, 1, 2, 3, 4, 5},cacheR |-> FALSE,nextN |-> 6,edges |-> (0 :> <<4, 5>> @@ 1 :> <<5, 3>>),acyclic |-> TRUE,l |-> 629,eObj |-> (0 :> 1),nextE |-> 2]),
    ([res |-> "raise",cacheV |-> FALSE,nodes |-> {0, 1, 2, 3, 4, 5},cacheR |-> FALSE,nextN |-> 6,edges |-> (0 :> <<4, 5>> @@ 1 :> <<5, 3>>),acyclic |-> TRUE,l |-> 630,eObj |-> (0 :> 1),nextE |-> 2]),
    ([res |-> "ok",cacheV |-> FALSE,nodes |-> {0, 1, 2, 3, 4, 5},cacheR |-> FALSE,nextN |-> 6,edges |-> (0 :> <<4, 5>> @@ 1 :> <<5, 3>> @@ 2 :> <<1, 2>>),acyclic |-> TRUE,l |-> 631,eObj |-> (0 :> 1 @@ 2 :> 2),nextE |-> 3]),
    ([res |-> "ok",cacheV |-> FALSE,nodes |-> {0, 1, 2, 3, 4, 5},cacheR |-> FALSE,nextN |-> 6,edges |-> (0 :> <<4, 5>> @@ 1 :> <<5, 3>> @@ 2 :> <<1, 2>> @@ 3 :> <<4, 0>>),acyclic |-> TRUE,l |-> 632,eObj |-> (0 :> 1 @@ 2 :> 2 @@ 3 :> 3),nextE |-> 4]),
    ([res |-> "RF",cacheV |-> FALSE,nodes |-> {0, 1, 2, 3, 4, 5},cacheR |-> FALSE,nextN |-> 6,edges |-> (0 :> <<4, 5>> @@ 1 :> <<5, 3>> @@ 2 :> <<1, 2>> @@ 3 :> <<4, 0>>),acyclic |-> TRUE,l |-> 633,eObj |-> (0 :> 1 @@ 2 :> 2 @@ 3 :> 3),nextE |-> 4]),
    ([res |-> "T",cacheV |-> TRUE,nodes |-> {0, 1, 2, 3, 4, 5},cacheR |-> FALSE,nextN |-> 6,edges |-> (0 :> <<4, 5>> @@ 1 :> <<5, 3>> @@ 2 :> <<1, 2>> @@ 3 :> <<4, 0>>),acyclic |-> TRUE,l |-> 634,eObj |-> (0 :> 1 @@ 2 :> 2 @@ 3 :> 3),nextE |-> 4]),
    ([res |-> "RF",cacheV |-> TRUE,nodes |-> {0, 1, 2, 3, 4, 5},cacheR |-> FALSE,nextN |-> 6,edges |-> (0 :> <<4, 5>> @@ 1 :> <<5, 3>> @@ 2 :> <<1, 2>> @@ 3 :> <<4, 0>>),acyclic |-> TRUE,l |-> 635,eObj |-> (0 :> 1 @@ 2 :> 2 @@ 3 :> 3),nextE |-> 4]),
    ([res |-> "ok",cacheV |-> TRUE,nodes |-> {0, 1, 2, 3, 4, 5},cacheR |-> FALSE,nextN |-> 6,edges |-> (0 :> <<4, 5>> @@ 1 :> <<5, 3>> @@ 2 :> <<1, 2>> @@ 3 :> <<4, 0>>),acyclic |-> TRUE,l |-> 636,eObj |-> (0 :> 1 @@ 2 :> 2 @@ 3 :> 3),nextE |-> 4]),
    ([res |-> "ok",cacheV |-> TRUE,nodes |-> {0, 1, 2, 3, 4, 5},cacheR |-> FALSE,nextN |-> 6,edges |-> (0 :> <<4, 5>> @@ 1 :> <<5, 3>> @@ 2 :> <<1, 2>> @@ 3 :> <<4, 0>>),acyclic |-> TRUE,l |-> 637,eObj |-> (0 :> 1 @@ 2 :> 2 @@ 3 :> 3),nextE |-> 4]),
    ([res |-> "ok",cacheV |-> TRUE,nodes |-> {0, 1, 2, 3, 4, 5},cacheR |-> FALSE,nextN |-> 6,edges |-> (0 :> <<4, 5>> @@ 1 :> <<5, 3>> @@ 2 :> <<1, 2>> @@ 3 :> <<4, 0>>),acyclic |-> TRUE,l |-> 638,eObj |-> (0 :> 1 @@ 2 :> 2 @@ 3 :> 3),nextE |-> 4]),
    ([res |-> "ok",cacheV |-> TRUE,nodes |-> {0, 1, 2, 3, 4, 5},cacheR |-> FALSE,nextN |-> 6,edges |-> (0 :> <<4, 5>> @@ 1 :> <<5, 3>> @@ 2 :> <<1, 2>> @@ 3 :> <<4, 0>>),acyclic |-> TRUE,l |-> 639,eObj |-> (0 :> 1 @@ 2 :> 2 @@ 3 :> 3),nextE |-> 4]),
    ([res |-> "ok",cacheV |-> TRUE,nodes |-> {0, 1, 2, 3, 4, 5},cacheR |-> FALSE,nextN |-> 6,edges |-> (0 :> <<4, 5>> @@ 1 :> <<5, 3>> @@ 2 :> <<1, 2>> @@ 3 :> <<4, 0>>),acyclic |-> TRUE,l |-> 640,eObj |-> (0 :> 1 @@ 2 :> 2 @@ 3 :> 3),nextE |-> 4]),
    ([res |-> "ok",cacheV |-> TRUE,nodes |-> {0, 1, 2, 3, 4, 5},cacheR |-> FALSE,nextN |-> 6,edges |-> (0 :> <<4, 5>> @@ 1 :> <<5, 3>> @@ 2 :> <<1, 2>> @@ 3 :> <<4, 0>>),acyclic |-> TRUE,l |-> 641,eObj |-> (0 :> 1 @@ 2 :> 2 @@ 3 :> 3),nextE |-> 4]),
    ([res |-> "ok",cacheV |-> TRUE,nodes |-> {0, 1, 2, 3, 4, 5},cacheR |-> FALSE,nextN |-> 6,edges |-> (0 :> <<4, 5>> @@ 1 :> <<5, 3>> @@ 2 :> <<1, 2>> @@ 3 :> <<4, 0>>),acyclic |-> TRUE,l |-> 642,eObj |-> (0 :> 1 @@ 2 :> 2 @@ 3 :> 3),nextE |-> 4]),
    ([res |-> "ok",cacheV |-> TRUE,nodes |-> {0, 1, 2, 3, 4, 5},cacheR |-> FALSE,nextN |-> 6,edges |-> (0 :> <<4, 5>> @@ 1 :> <<5, 3>> @@ 2 :> <<1, 2>> @@ 3 :> <<4, 0>>),acyclic |-> TRUE,l |-> 643,eObj |-> (0 :> 1 @@ 2 :> 2 @@ 3 :> 3),nextE |-> 4]),
    ([res |-> "ok",cacheV |-> FALSE,nodes |-> {},cacheR |-> FALSE,nextN |-> 0,edges |-> <<>>,acyclic |-> TRUE,l |-> 644,eObj |-> <<>>,nextE |-> 0]),
    ([res |-> "raise",cacheV |-> FALSE,nodes |-> {},cacheR |-> FALSE,nextN |-> 0,edges |-> <<>>,acyclic |-> TRUE,l |-> 645,eObj |-> <<>>,nextE |-> 0]),
    ([res |-> "ok",cacheV |-> FALSE,nodes |-> {0},cacheR |-> FALSE,nextN |-> 1,edges |-> <<>>,acyclic |-> TRUE,l |-> 646,eObj |-> <<>>,nextE |-> 0]),
    ([res |-> "ok",cacheV |-> FALSE,nodes |-> {0},cacheR |-> FALSE,nextN |-> 1,edges |-> (0 :> <<0, 0>>),acyclic |-> FALSE,l |-> 647,eObj |-> <<>>,nextE |-> 1]),
    ([res |-> "ok",cacheV |-> FALSE,nodes |-> {0},cacheR |-> FALSE,nextN |-> 1,edges |-> (0 :> <<0, 0>>),acyclic |-> FALSE,l |-> 648,eObj |-> <<>>,nextE |-> 1]),
    ([res |-> "ok",cacheV |-> FALSE,nodes |-> {0},cacheR |-> FALSE,nextN |-> 1,edges |-> (0 :> <<0, 0>>),acyclic |-> FALSE,l |-> 649,eObj |-> <<>>,nextE |-> 1]),
    ([res |-> "raise",cacheV |-> FALSE,nodes |-> {0},cacheR |-> FALSE,nextN |-> 1,edges |-> (0 :> <<0, 0>>),acyclic |-> FALSE,l |-> 650,eObj |-> <<>>,nextE |-> 1]),
    ([res |-> "raise",cacheV |-> FALSE,nodes |-> {0},cacheR |-> FALSE,nextN |-> 1,edges |-> (0 :> <<0, 0>>),acyclic |-> FALSE,l |-> 651,eObj |-> <<>>,nextE |-> 1]),
    ([res |-> "ok",cacheV |-> FALSE,nodes |-> {0, 1},cacheR |-> FALSE,nextN |-> 2,edges |-> (0 :> <<0, 0>>),acyclic |-> FALSE,l |-> 652,eObj |-> <<>>,nextE |-> 1]),
    ([res |-> "F",cacheV |-> FALSE,nodes |-> {0, 1},cacheR |-> FALSE,nextN |-> 2,edges |-> (0 :> <<0, 0>>),acyclic |-> FALSE,l |-> 653,eObj |-> <<>>,nextE |-> 1]),
    ([res |-> "raise",cacheV |-> FALSE,nodes |-> {0, 1},cacheR |-> FALSE,nextN |-> 2,edges |-> (0 :> <<0, 0>>),acyclic |-> FALSE,l |-> 654,eObj |-> <<>>,nextE |-> 1]),
    ([res |-> "F",cacheV |-> FALSE,nodes |-> {0, 1},cacheR |-> FALSE,nextN |-> 2,edges |-> (0 :> <<0, 0>>),acyclic |-> FALSE,l |-> 655,eObj |-> <<>>,nextE |-> 1]),
    ([res |-> "F",cacheV |-> FALSE,nodes |-> {0, 1},cacheR |-> FALSE,nextN |-> 2,edges |-> (0 :> <<0, 0>>),acyclic |-> FALSE,l |-> 656,eObj |-> <<>>,nextE |-> 1]),
    ([res |-> "raise",cacheV |-> FALSE,nodes |-> {0, 1},cacheR |-> FALSE,nextN |-> 2,edges |-> (0 :> <<0, 0>>),acyclic |-> FALSE,l |-> 657,eObj |-> <<>>,nextE |-> 1]),
    ([res |-> "raise",cacheV |-> FALSE,nodes |-> {0, 1},cacheR |-> FALSE,nextN |-> 2,edges |-> (0 :> <<0, 0>>),acyclic |-> FALSE,l |-> 658,eObj |-> <<>>,nextE |-> 1]),
    ([res |-> "RT",cacheV |-> FALSE,nodes |-> {0, 1},cacheR |-> TRUE,nextN |-> 2,edges |-> (0 :> <<0, 0>>),acyclic |-> FALSE,l |-> 659,eObj |-> <<>>,nextE |-> 1]),
    ([res |-> "ok",cacheV |-> FALSE,nodes |-> {0, 1},cacheR |-> TRUE,nextN |-> 2,edges |-> (0 :> <<0, 0>>),acyclic |-> FALSE,l |-> 660,eObj |-> <<>>,nextE |-> 1]),
    ([res |-> "RT",cacheV |-> FALSE,nodes |-> {0, 1},cacheR |-> TRUE,nextN |-> 2,edges |-> (0 :> <<0, 0>>),acyclic |-> FALSE,l |-> 661,eObj |-> <<>>,nextE |-> 1]),
    ([res |-> "raise",cacheV |-> FALSE,nodes |-> {0, 1},cacheR |-> TRUE,nextN |-> 2,edges |-> (0 :> <<0, 0>>),acyclic |-> FALSE,l |-> 662,eObj |-> <<>>,nextE |-> 1]),
    ([res |-> "raise",cacheV |-> FALSE,nodes |-> {0, 1},cacheR |-> TRUE,nextN |-> 2,edges |-> (0 :> <<0, 0>>),acyclic |-> FALSE,l |-> 663,eObj |-> <<>>,nextE |-> 1]),
    ([res |-> "ok",cacheV |-> FALSE,nodes |-> {0, 1, 2},cacheR |-> FALSE,nextN |-> 3,edges |-> (0 :> <<0, 0>>),acyclic |-> FALSE,l |-> 664,eObj |-> <<>>,nextE |-> 1]),
    ([res |-> "raise",cacheV |-> FALSE,nodes |-> {0, 1, 2},cacheR |-> FALSE,nextN |-> 3,edges |-> (0 :> <<0, 0>>),acyclic |-> FALSE,l |-> 665,eObj |-> <<>>,nextE |-> 1]),
    ([res |-> "ok",cacheV |-> FALSE,nodes |-> {0, 1, 2, 3},cacheR |-> FALSE,nextN |-> 4,edges |-> (0 :> <<0, 0>>),acyclic |-> FALSE,l |-> 666,eObj |-> <<>>,nextE |-> 1]),
    ([res |-> "ok",cacheV |-> FALSE,nodes |-> {0, 1, 2, 3},cacheR |-> FALSE,nextN |-> 4,edges |-> (0 :> <<0, 0>>),acyclic |-> FALSE,l |-> 667,eObj |-> <<>>,nextE |-> 1]),
    ([res |-> "ok",cacheV |-> FALSE,nodes |-> {0, 1, 2, 3},cacheR |-> FALSE,nextN |-> 4,edges |-> (0 :> <<0, 0>> @@ 1 :> <<1, 1>>),acyclic |-> FALSE,l |-> 668,eObj |-> <<>>,nextE |-> 2]),
    ([res |-> "ok",cacheV |-> FALSE,nodes |-> {0, 1, 2, 3},cacheR |-> FALSE,nextN |-> 4,edges |-> (0 :> <<0, 0>> @@ 1 :> <<1, 1>> @@ 2 :> <<1, 3>>),acyclic |-> FALSE,l |-> 669,eObj |-> <<>>,nextE |-> 3]),
    ([res |-> "RT",cacheV |-> FALSE,nodes |-> {0, 1, 2, 3},cacheR |-> TRUE,nextN |-> 4,edges |-> (0 :> <<0, 0>> @@ 1 :> <<1, 1>> @@ 2 :> <<1, 3>>),acyclic |-> FALSE,l |-> 670,eObj |-> <<>>,nextE |-> 3]),
    ([res |-> "RT",cacheV |-> FALSE,nodes |-> {0, 1, 2, 3},cacheR |-> TRUE,nextN |-> 4,edges |-> (0 :> <<0, 0>> @@ 1 :> <<1, 1>> @@ 2 :> <<1, 3>>),acyclic |-> FALSE,l |-> 671,eObj |-> <<>>,nextE |-> 3]),
    ([res |-> "F",cacheV |-> FALSE,nodes |-> {0, 1, 2, 3},cacheR |-> TRUE,nextN |-> 4,edges |-> (0 :> <<0, 0>> @@ 1 :> <<1, 1>> @@ 2 :> <<1, 3>>),acyclic |-> FALSE,l |-> 672,eObj |-> <<>>,nextE |-> 3]),
    ([res |-> "F",cacheV |-> FALSE,nodes |-> {0, 1, 2, 3},cacheR |-> TRUE,nextN |-> 4,edges |-> (0 :> <<0, 0>> @@ 1 :> <<1, 1>> @@ 2 :> <<1, 3>>),acyclic |-> FALSE,l |-> 673,eObj |-> <<>>,nextE |-> 3]),
    ([res |-> "RT",cacheV |-> FALSE,nodes |-> {0, 1, 2, 3},cacheR |-> TRUE,nextN |-> 4,edges |-> (0 :> <<0, 0>> @@ 1 :> <<1, 1>> @@ 2 :> <<1, 3>>),acyclic |-> FALSE,l |-> 674,eObj |-> <<>>,nextE |-> 3]),
    ([res |-> "ok",cacheV |-> FALSE,nodes |-> {0, 1, 2, 3, 4},cacheR |-> FALSE,nextN |-> 5,edges |-> (0 :> <<0, 0>> @@ 1 :> <<1, 1>> @@ 2 :> <<1, 3>>),acyclic |-> FALSE,l |-> 675,eObj |-> <<>>,nextE |-> 3]),
    ([res |-> "ok",cacheV |-> FALSE,nodes |-> {0, 1, 2, 3, 4, 5},cacheR |-> FALSE,nextN |-> 6,edges |-> (0 :> <<0, 0>> @@ 1 :> <<1, 1>> @@ 2 :> <<1, 3>>),acyclic |-> FALSE,l |-> 676,eObj |-> <<>>,nextE |-> 3]),
    ([res |-> "ok",cacheV |-> FALSE,nodes |-> {0, 1, 2, 3, 4, 5},cacheR |-> FALSE,nextN |-> 6,edges |-> (0 :> <<0, 0>> @@ 1 :> <<1, 1>> @@ 2 :> <<1, 3>>),acyclic |-> FALSE,l |-> 677,eObj |-> <<>>,nextE |-> 3]),
    ([res |-> "ok",cacheV |-> FALSE,nodes |-> {0, 1, 2, 3, 4, 5},cacheR |-> FALSE,nextN |-> 6,edges |-> (0 :> <<0, 0>> @@ 1 :> <<1, 1>> @@ 2 :> <<1, 3>> @@ 3 :> <<3, 5>>),acyclic |-> FALSE,l |-> 678,eObj |-> (3 :> 1),nextE |-> 4]),
    ([res |-> "raise",cacheV |-> FALSE,nodes |-> {0, 1, 2, 3, 4, 5},cacheR |-> FALSE,nextN |-> 6,edges |-> (0 :> <<0, 0>> @@ 1 :> <<1, 1>> @@ 2 :> <<1, 3>> @@ 3 :> <<3, 5>>),acyclic |-> FALSE,l |-> 679,eObj |-> (3 :> 1),nextE |-> 4]),
    ([res |-> "raise",cacheV |-> FALSE,nodes |-> {0, 1, 2, 3, 4, 5},cacheR |-> FALSE,nextN |-> 6,edges |-> (0 :> <<0, 0>> @@ 1 :> <<1, 1>> @@ 2 :> <<1, 3>> @@ 3 :> <<3, 5>>),acyclic |-> FALSE,l |-> 680,eObj |-> (3 :> 1),nextE |-> 4]),
    ([res |-> "F",cacheV |-> FALSE,nodes |-> {0, 1, 2, 3, 4, 5},cacheR |-> FALSE,nextN |-> 6,edges |-> (0 :> <<0, 0>> @@ 1 :> <<1, 1>> @@ 2 :> <<1, 3>> @@ 3 :> <<3, 5>>),acyclic |-> FALSE,l |-> 681,eObj |-> (3 :> 1),nextE |-> 4]),
    ([res |-> "RT",cacheV |-> FALSE,nodes |-> {0, 1, 2, 3, 4, 5},cacheR |-> FALSE,nextN |-> 6,edges |-> (0 :> <<0, 0>> @@ 1 :> <<1, 1>> @@ 2 :> <<1, 3>> @@ 3 :> <<3, 5>>),acyclic |-> FALSE,l |-> 682,eObj |-> (3 :> 1),nextE |-> 4])
    >>
----


=============================================================================

---- CONFIG DagTrace_TTrace_1790491845 ----
CONSTANTS
    MaxN = 1000000
    MaxE = 1000000
    EObjs = { 1 , 2 , 3 , 4 , 5 , 6 , 7 , 8 , 9 , 10 , 11 , 12 , 13 , 14 , 15 , 16 }
    Forget = { }

INVARIANT
    _inv

CHECK_DEADLOCK
    \* CHECK_DEADLOCK off because of PROPERTY or INVARIANT above.
    FALSE

INIT
    _init

NEXT
    _next

CONSTANT
    _TETrace <- _trace

ALIAS
    _expression
=============================================================================
\* Generated on Sun Sep 27 06:50:48 UTC 2026