--------------------------------- MODULE Dag ---------------------------------
\* Design model of the DAG container of bpp-core (DAGraphImpl<GlobalGraph>
\* behind AssociationDAGraphImplObserver) for property C15.
\*
\* The graph is always directed.  Ghost `acyclic` = the DEFINITION (no node
\* reaches itself by >= 1 edge) on the current graph.  Implementation state:
\* the two cached flags  isValid_ (`cacheV`)  and  isRooted_ (`cacheR`).
\* Queries are actions (they fill the caches).  `Forget` as in Tree.tla.
EXTENDS TreeDefs

CONSTANTS MaxN, MaxE, EObjs, Forget

VARIABLES nodes, edges, nextN, nextE, eObj,
          root,      \* the recorded root id (set by rootAt; plays no part in validity)
          acyclic,   \* GHOST: IsDagDef on the current graph
          cacheV, cacheR, res

gvars == <<nodes, edges, nextN, nextE, eObj, root>>
vars  == <<nodes, edges, nextN, nextE, eObj, root, acyclic, cacheV, cacheR, res>>

NodeIds == 0..(MaxN - 1)
Objs    == EObjs \cup {None}
IsDag   == IsDagDef(nodes, edges)
NoFather == Fatherless(nodes, edges)

TypeOK ==
  /\ nodes \subseteq NodeIds /\ nextN \in 0..MaxN /\ nextE \in 0..MaxE
  /\ DOMAIN edges \subseteq 0..(nextE - 1) /\ \A n \in nodes : n < nextN
  /\ \A e \in DOMAIN edges : edges[e][1] \in nodes /\ edges[e][2] \in nodes
  /\ DOMAIN eObj \subseteq DOMAIN edges /\ \A e \in DOMAIN eObj : eObj[e] \in EObjs
  /\ \A e, f \in DOMAIN eObj : e # f => eObj[e] # eObj[f]
  /\ cacheV \in BOOLEAN /\ cacheR \in BOOLEAN /\ acyclic \in BOOLEAN

Init == /\ nodes = {} /\ edges = <<>> /\ nextN = 0 /\ nextE = 0 /\ eObj = <<>> /\ root = 0
        /\ acyclic = TRUE /\ cacheV = FALSE /\ cacheR = FALSE /\ res = "ok"

B(x)     == IF x THEN "T" ELSE "F"
Ghost    == acyclic' = IsDagDef(nodes', edges')
Inval(a) == /\ cacheV' = (IF a \in Forget THEN cacheV ELSE FALSE)
            /\ cacheR' = (IF a \in Forget THEN cacheR ELSE FALSE)
Raise    == res' = "raise" /\ UNCHANGED <<gvars, acyclic, cacheV, cacheR>>
Valid    == cacheV \/ acyclic
Attached(o) == o # None /\ \E e \in DOMAIN eObj : eObj[e] = o
WithEdge(E, id, a, b) == [e \in DOMAIN E \cup {id} |-> IF e = id THEN <<a, b>> ELSE E[e]]
WithObj(O, id, o) == IF o = None THEN O ELSE [e \in DOMAIN O \cup {id} |-> IF e = id THEN o ELSE O[e]]

CreateNode ==
  /\ nextN < MaxN /\ nodes' = nodes \cup {nextN} /\ nextN' = nextN + 1
  /\ Inval("CreateNode") /\ res' = "ok" /\ UNCHANGED <<edges, nextE, eObj, root>> /\ Ghost

\* addSon(a, b [, o]) and addFather(b, a [, o]) both create a -> b
LinkPre(a, b, o) == a \in nodes /\ b \in nodes /\ ~Attached(o)
LinkOk(a, b, o, name) ==
  /\ LinkPre(a, b, o) /\ nextE < MaxE
  /\ edges' = WithEdge(edges, nextE, a, b) /\ eObj' = WithObj(eObj, nextE, o) /\ nextE' = nextE + 1
  /\ Inval(name) /\ res' = "ok" /\ UNCHANGED <<nodes, nextN, root>> /\ Ghost
Link(a, b, o, name) ==
  IF LinkPre(a, b, o)
  THEN \/ LinkOk(a, b, o, name)
       \/ Rel(edges, TRUE, a, b) # {} /\ Raise          \* second link on a relation: either (DESIGN 2a)
  ELSE Raise
AddSon(a, b, o)    == Link(a, b, o, "AddSon")
AddFather(n, f, o) == Link(f, n, o, "AddFather")

Unlink(a, b, name) ==
  IF a \in nodes /\ b \in nodes /\ Rel(edges, TRUE, a, b) # {}
  THEN /\ edges' = Restrict(edges, DOMAIN edges \ Rel(edges, TRUE, a, b))
       /\ eObj' = Restrict(eObj, DOMAIN eObj \ Rel(edges, TRUE, a, b))
       /\ Inval(name) /\ res' = "ok" /\ UNCHANGED <<nodes, nextN, nextE, root>> /\ Ghost
  ELSE Raise
RemoveSon(a, b)    == Unlink(a, b, "RemoveSon")
RemoveFather(n, f) == Unlink(f, n, "RemoveFather")

DeleteNode(n) ==
  IF n \in nodes
  THEN LET gone == {e \in DOMAIN edges : n \in Unordered(edges[e])} IN
       /\ nodes' = nodes \ {n}
       /\ edges' = Restrict(edges, DOMAIN edges \ gone) /\ eObj' = Restrict(eObj, DOMAIN eObj \ gone)
       /\ Inval("DeleteNode") /\ res' = "ok" /\ UNCHANGED <<nextN, nextE, root>> /\ Ghost
  ELSE Raise

\* rootAt(r): "re-root the DA with the new root (and make the graph a DA if it is not)".
\* Asserted when that is possible at all (graph connected and simple when read without
\* directions): every edge keeps its id, its link and its object, some edges are turned
\* round, afterwards the graph is acyclic and r is its only father-less node.  Which
\* orientation is chosen is left open (the design explores all, the trace adopts the
\* one read back).  An absent node is refused.  Other graphs: not asserted (no step).
RootAtTo(r, E2) ==
  /\ Orientable(nodes, edges, r)
  /\ SameLinks(edges, E2) /\ HangsFrom(nodes, E2, r)
  /\ edges' = E2 /\ root' = r /\ Inval("RootAt") /\ res' = "okR" /\ UNCHANGED <<nodes, nextN, nextE, eObj>> /\ Ghost
RootAt(r) ==
  IF r \notin nodes THEN Raise
  ELSE \E F \in SUBSET DOMAIN edges : RootAtTo(r, Flip(edges, F))

\* isValid(): cached flag or fresh evaluation (the empty graph is not asserted, DESIGN 2h)
QValid == res' = B(Valid) /\ cacheV' = Valid /\ UNCHANGED <<gvars, acyclic, cacheR>>
\* isRooted(): "has only one node with no father"; the code answers TRUE when
\* there is none (then the graph is cyclic or empty) - that case is not asserted.
RootedAnswer == cacheR \/ Cardinality(NoFather) <= 1
QRooted == /\ res' = "R" \o B(RootedAnswer)
           /\ cacheR' = (cacheR \/ Cardinality(NoFather) = 1)
           /\ UNCHANGED <<gvars, acyclic, cacheV>>
\* getBelowNodes / getBelowEdges are guarded by the validity test
QBelow(n) == /\ n \in nodes /\ cacheV' = Valid /\ res' = (IF Valid THEN "ok" ELSE "raise")
             /\ UNCHANGED <<gvars, acyclic, cacheR>>
QStruct == res' = "ok" /\ UNCHANGED <<gvars, acyclic, cacheV, cacheR>>

Next ==
  \/ CreateNode
  \/ \E a, b \in NodeIds, o \in Objs : AddSon(a, b, o) \/ AddFather(a, b, o)
  \/ \E a, b \in NodeIds : RemoveSon(a, b) \/ RemoveFather(a, b)
  \/ \E n \in NodeIds : DeleteNode(n) \/ QBelow(n) \/ RootAt(n)
  \/ QValid \/ QRooted \/ QStruct

Spec == Init /\ [][Next]_vars

\* ------------------------------------------------------------------ the property
GhostIsDef  == acyclic = IsDag
\* every validity answer = the definition, whatever was asked before
ValidExact  == (res \in {"T", "F"} /\ nodes # {}) => (res = "T") = acyclic
\* every rootedness answer = "exactly one father-less node" (when there is one at all)
RootedExact == (res \in {"RT", "RF"} /\ NoFather # {}) => (res = "RT") = (Cardinality(NoFather) = 1)
CacheVSound == cacheV => acyclic
CacheRSound == cacheR => Cardinality(NoFather) = 1
RaiseKeeps == [][res' = "raise" => UNCHANGED gvars]_vars
\* an accepted rootAt(r) leaves an acyclic graph hanging from r, made of the same links
RootAtHangs ==
  [][res' = "okR" =>
        /\ SameLinks(edges, edges') /\ eObj' = eObj /\ nodes' = nodes
        /\ acyclic' /\ Cardinality(Fatherless(nodes', edges')) = 1
        /\ \A r \in Fatherless(nodes', edges') : ReachFrom(edges', TRUE, {r}) = nodes']_vars   \* all hangs below it

\* reference queries on an acyclic graph are coherent
RefCoherent ==
  acyclic =>
    \A n \in nodes : /\ LeavesUnder(edges, n) # {}
                     /\ (Sons(edges, n) = {}) = (LeavesUnder(edges, n) = {n})
                     /\ \A m \in Desc(edges, n) \ {n} : n \notin Desc(edges, m)
=============================================================================
