SPECIFICATION TraceSpec
CONSTANTS
  MaxN = 1000000
  MaxE = 1000000
  EObjs = {1, 2, 3, 4, 5, 6, 7, 8, 9, 10, 11, 12, 13, 14, 15, 16}
  Forget = {}
INVARIANTS TypeOK GhostIsDef ValidExact RootedExact CacheVSound CacheRSound
PROPERTIES RaiseKeeps RootAtHangs
POSTCONDITION TraceAccepted
CHECK_DEADLOCK FALSE
