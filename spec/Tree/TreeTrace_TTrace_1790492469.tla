---- MODULE TreeTrace_TTrace_1790492469 ----
EXTENDS Sequences, TLCExt, Toolbox, TreeTrace, Naturals, TLC

_expression ==
    LET TreeTrace_TEExpression == INSTANCE TreeTrace_TEExpression
    IN TreeTrace_TEExpression!expression
----

_trace ==
    LET TreeTrace_TETrace == INSTANCE TreeTrace_TETrace
    IN TreeTrace_TETrace!trace
----

_inv ==
    ~(
        TLCGet("level") = Len(_TETrace)
        /\
        valid = (TRUE)
        /\
        op = (<<"-", 0>>)
        /\
        res = ("F")
        /\
        directed = (TRUE)
        /\
        cache = (TRUE)
        /\
        nodes = ({0})
        /\
        nextN = (1)
        /\
        root = (0)
        /\
        edges = (<<>>)
        /\
        l = (4)
        /\
        eObj = (<<>>)
        /\
        nextE = (0)
    )
----

_init ==
    /\ valid = _TETrace[1].valid
    /\ root = _TETrace[1].root
    /\ op = _TETrace[1].op
    /\ l = _TETrace[1].l
    /\ nodes = _TETrace[1].nodes
    /\ directed = _TETrace[1].directed
    /\ res = _TETrace[1].res
    /\ eObj = _TETrace[1].eObj
    /\ edges = _TETrace[1].edges
    /\ nextE = _TETrace[1].nextE
    /\ nextN = _TETrace[1].nextN
    /\ cache = _TETrace[1].cache
----

_next ==
    /\ \E i,j \in DOMAIN _TETrace:
        /\ \/ /\ j = i + 1
              /\ i = TLCGet("level")
        /\ valid  = _TETrace[i].valid
        /\ valid' = _TETrace[j].valid
        /\ root  = _TETrace[i].root
        /\ root' = _TETrace[j].root
        /\ op  = _TETrace[i].op
        /\ op' = _TETrace[j].op
        /\ l  = _TETrace[i].l
        /\ l' = _TETrace[j].l
        /\ nodes  = _TETrace[i].nodes
        /\ nodes' = _TETrace[j].nodes
        /\ directed  = _TETrace[i].directed
        /\ directed' = _TETrace[j].directed
        /\ res  = _TETrace[i].res
        /\ res' = _TETrace[j].res
        /\ eObj  = _TETrace[i].eObj
        /\ eObj' = _TETrace[j].eObj
        /\ edges  = _TETrace[i].edges
        /\ edges' = _TETrace[j].edges
        /\ nextE  = _TETrace[i].nextE
        /\ nextE' = _TETrace[j].nextE
        /\ nextN  = _TETrace[i].nextN
        /\ nextN' = _TETrace[j].nextN
        /\ cache  = _TETrace[i].cache
        /\ cache' = _TETrace[j].cache

\* Uncomment the ASSUME below to write the states of the error trace
\* to the given file in Json format. Note that you can pass any tuple
\* to `JsonSerialize`. For example, a sub-sequence of _TETrace.
    \* ASSUME
    \*     LET J == INSTANCE Json
    \*         IN J!JsonSerialize("TreeTrace_TTrace_1790492469.json", _TETrace)

=============================================================================

 Note that you can extract this module `TreeTrace_TEExpression`
  to a dedicated file to reuse `expression` (the module in the 
  dedicated `TreeTrace_TEExpression.tla` file takes precedence 
  over the module `TreeTrace_TEExpression` below).

---- MODULE TreeTrace_TEExpression ----
EXTENDS Sequences, TLCExt, Toolbox, TreeTrace, Naturals, TLC

expression == 
    [
        \* To hide variables of the `TreeTrace` spec from the error trace,
        \* remove the variables below.  The trace will be written in the order
        \* of the fields of this record.
        valid |-> valid
        ,root |-> root
        ,op |-> op
        ,l |-> l
        ,nodes |-> nodes
        ,directed |-> directed
        ,res |-> res
        ,eObj |-> eObj
        ,edges |-> edges
        ,nextE |-> nextE
        ,nextN |-> nextN
        ,cache |-> cache
        
        \* Put additional constant-, state-, and action-level expressions here:
        \* ,_stateNumber |-> _TEPosition
        \* ,_validUnchanged |-> valid = valid'
        
        \* Format the `valid` variable as Json value.
        \* ,_validJson |->
        \*     LET J == INSTANCE Json
        \*     IN J!ToJson(valid)
        
        \* Lastly, you may build expressions over arbitrary sets of states by
        \* leveraging the _TETrace operator.  For example, this is how to
        \* count the number of times a spec variable changed up to the current
        \* state in the trace.
        \* ,_validModCount |->
        \*     LET F[s \in DOMAIN _TETrace] ==
        \*         IF s = 1 THEN 0
        \*         ELSE IF _TETrace[s].valid # _TETrace[s-1].valid
        \*             THEN 1 + F[s-1] ELSE F[s-1]
        \*     IN F[_TEPosition - 1]
    ]

=============================================================================



Parsing and semantic processing can take forever if the trace below is long.
 In this case, it is advised to uncomment the module below to deserialize the
 trace from a generated binary file.

\*
\*---- MODULE TreeTrace_TETrace ----
\*EXTENDS IOUtils, TreeTrace, TLC
\*
\*trace == IODeserialize("TreeTrace_TTrace_1790492469.bin", TRUE)
\*
\*=============================================================================
\*

---- MODULE TreeTrace_TETrace ----
EXTENDS TreeTrace, TLC

trace == 
    <<
    ([valid |-> FALSE,op |-> <<"-", 0>>,res |-> "ok",directed |-> TRUE,cache |-> FALSE,nodes |-> {},nextN |-> 0,root |-> 0,edges |-> <<>>,l |-> 1,eObj |-> <<>>,nextE |-> 0]),
    ([valid |-> FALSE,op |-> <<"-", 0>>,res |-> "ok",directed |-> TRUE,cache |-> FALSE,nodes |-> {},nextN |-> 0,root |-> 0,edges |-> <<>>,l |-> 2,eObj |-> <<>>,nextE |-> 0]),
    ([valid |-> TRUE,op |-> <<"-", 0>>,res |-> "ok",directed |-> TRUE,cache |-> FALSE,nodes |-> {0},nextN |-> 1,root |-> 0,edges |-> <<>>,l |-> 3,eObj |-> <<>>,nextE |-> 0]),
    ([valid |-> TRUE,op |-> <<"-", 0>>,res |-> "F",directed |-> TRUE,cache |-> TRUE,nodes |-> {0},nextN |-> 1,root |-> 0,edges |-> <<>>,l |-> 4,eObj |-> <<>>,nextE |-> 0])
    >>
----


=============================================================================

---- CONFIG TreeTrace_TTrace_1790492469 ----
CONSTANTS
    MaxN = 1000000
    MaxE = 1000000
    EObjs = { 1 , 2 , 3 , 4 , 5 , 6 , 7 , 8 , 9 , 10 , 11 , 12 , 13 , 14 , 15 , 16 }
    Forget = { }

INVARIANT
    _inv

CHECK_DEADLOCK
    \* CHECK_DEADLOCK off because of PROPERTY or INVARIANT above.
    FALSE

INIT
    _init

NEXT
    _next

CONSTANT
    _TETrace <- _trace

ALIAS
    _expression
=============================================================================
\* Generated on Sun Sep 27 07:01:10 UTC 2026