---------------------------- MODULE NumDerivTrace ----------------------------
\* Trace validation for C12: every event recorded by harness/drv_numderiv.cpp
\* from the real Two/Three/FivePointsNumericalDerivative wrappers must be one
\* PRIMITIVE step of NumDeriv (the design's control skeleton is not imposed:
\* any probing order that respects the property is accepted); the invariants
\* Transparent, ProbeShape, Delegates, QueryGood, OutcomeOK are evaluated in
\* every state.
\*
\* Encoding (E3): coordinates are numerators at the scenario's dyadic scale
\* (one unit = 1/64 of the wrapper's interval h; requested coordinates are
\* multiples of up = one half); the polynomial has small integer coefficients;
\* function and derivative values are numerators at scale c^dmax.  The
\* specification evaluates the polynomial and its analytic derivatives at the
\* requested point in exact integer arithmetic and compares.
\*
\* Events
\*   Reset   scheme nv lo hi li ui fk hm c up dmax poly p0
\*   Config  sel cross d1                       (setParametersToDerivate / enable...)
\*   Update  entry asg=<<<<v,x>>,...>>          logged BEFORE the public call
\*   Move    p                                  wrapped function's fireParameterChanged
\*   Eval    p                                  wrapped function's getValue
\*   Der     k on                               wrapped function's enableFirst/SecondOrderDerivatives
\*   Return  out fp wv wvok exact               logged AFTER the public call (also on the throw path)
\*   Query   k v w out val vok deleg exact      getFirstOrderDerivative / getSecondOrderDerivative(1,2 args)
EXTENDS NumDeriv, TraceLib

RECURSIVE Pw(_, _)
Pw(x, a) == IF a = 0 THEN 1 ELSE x * Pw(x, a - 1)
RECURSIVE SumSeq(_)
SumSeq(s) == IF s = <<>> THEN 0 ELSE Head(s) + SumSeq(Tail(s))
RECURSIVE ProdSeq(_)
ProdSeq(s) == IF s = <<>> THEN 1 ELSE Head(s) * ProdSeq(Tail(s))
Mx(S) == CHOOSE x \in S : \A y \in S : y <= x

\* coarse index of the requested coordinate (the value is K(v)/c)
K(v) == req[v] \div cfg.up
Terms == cfg.poly                                  \* <<coef, <<e_1..e_nv>>>>
TDeg(t) == SumSeq(t[2])
DegIn(v) == Mx({0} \cup {Terms[i][2][v] : i \in DOMAIN Terms})
\* monomial with exponents e at the requested point, scaled so that every value is a numerator over c^dmax
Mono(e, deg) == ProdSeq([v \in 1..cfg.nv |-> Pw(K(v), e[v])]) * Pw(cfg.c, cfg.dmax - deg)
Dec(e, v) == [e EXCEPT ![v] = e[v] - 1]
PolyAt == SumSeq([i \in DOMAIN Terms |-> Terms[i][1] * Mono(Terms[i][2], TDeg(Terms[i]))])
AnaD1(v) == SumSeq([i \in DOMAIN Terms |->
              LET t == Terms[i]  e == t[2] IN
              IF e[v] = 0 THEN 0 ELSE t[1] * e[v] * Mono(Dec(e, v), TDeg(t) - 1)])
AnaD2(v) == SumSeq([i \in DOMAIN Terms |->
              LET t == Terms[i]  e == t[2] IN
              IF e[v] < 2 THEN 0 ELSE t[1] * e[v] * (e[v] - 1) * Mono(Dec(Dec(e, v), v), TDeg(t) - 2)])
AnaX(v, w) == SumSeq([i \in DOMAIN Terms |->
              LET t == Terms[i]  e == t[2] IN
              IF e[v] = 0 \/ e[w] = 0 THEN 0 ELSE t[1] * e[v] * e[w] * Mono(Dec(Dec(e, v), w), TDeg(t) - 2)])

AsgOf(list) == [v \in {list[i][1] : i \in DOMAIN list} |->
                  (list[CHOOSE i \in DOMAIN list : list[i][1] = v])[2]]
Outcome(s) == IF s = "ok" THEN "ok" ELSE "raise"       \* exception classes are not part of the statement

TReset ==
  /\ IsEvent("Reset")
  /\ cfg' = [scheme |-> Ev.scheme, nv |-> Ev.nv, lo |-> Ev.lo, hi |-> Ev.hi, li |-> Ev.li, ui |-> Ev.ui,
             fk |-> Ev.fk, hm |-> Ev.hm, c |-> Ev.c, up |-> Ev.up, dmax |-> Ev.dmax, poly |-> Ev.poly]
  /\ req' = Ev.p0 /\ fpos' = Ev.p0 /\ wv' = Ev.p0 /\ evpt' = <<>>
  /\ sel' = <<>> /\ cross' = FALSE /\ d1' = TRUE
  /\ phase' = "idle" /\ out' = "" /\ ready' = "no"
  /\ fden' = <<TRUE, TRUE>> /\ fdpt' = <<Ev.p0, Ev.p0>>
  /\ q' = NoQuery
  /\ UNCHANGED dv

TConfig == IsEvent("Config") /\ Config(Ev.sel, Ev.cross, Ev.d1) /\ UNCHANGED dv
TUpdate == IsEvent("Update") /\ Begin(Ev.entry, AsgOf(Ev.asg)) /\ UNCHANGED dv
TMove   == IsEvent("Move") /\ FnMove(Ev.p) /\ UNCHANGED dv
TEval   == IsEvent("Eval") /\ Ev.p = fpos /\ FnEval /\ UNCHANGED dv
TDer    == IsEvent("Der") /\ FnDer(Ev.k, Ev.on) /\ UNCHANGED dv

\* the wrapped function's getParameters() must agree with what it was told, and
\* the value the wrapper reports is compared with the polynomial at the requested point
TReturn ==
  /\ IsEvent("Return")
  /\ Ev.fp = fpos
  /\ End(Outcome(Ev.out), IF Ev.wvok /\ Ev.wv = PolyAt THEN req ELSE <<>>)
  /\ UNCHANGED dv

\* what a returned derivative must be.  Values are asserted where the statement
\* fixes them: polynomial degree within what the scheme differentiates exactly
\* (central stencil away from the bounds, one-sided next to a bound), all
\* evaluations of the update exact in floating point (E3, Ev.exact).
NumOK(k, v, w) ==
  LET c == Central(v)  dg == DegIn(v) IN
  CASE k = "D1" -> IF (c \/ OneSided(v)) /\ dg <= E1(cfg.scheme, c) /\ Ev.exact
                     THEN Ev.out = "ok" /\ Ev.vok /\ Ev.val = AnaD1(v)
                     ELSE (c \/ OneSided(v)) => Ev.out = "ok"
    [] k = "D2" -> IF (c \/ OneSided(v)) /\ dg <= E2(cfg.scheme, c) /\ Ev.exact
                     THEN Ev.out = "ok" /\ Ev.vok /\ Ev.val = AnaD2(v)
                     ELSE (c \/ OneSided(v)) => Ev.out = "ok"
    [] k = "X"  -> IF CornersIn(v, w) /\ dg <= ECross /\ DegIn(w) <= ECross /\ Ev.exact
                     THEN Ev.out = "ok" /\ Ev.vok /\ Ev.val = AnaX(v, w)
                     ELSE Ev.out = "ok"
\* delegation: the wrapped function's own method was called and its answer is returned
FnOK(k, v, w) ==
  LET order == IF k = "D1" THEN 1 ELSE 2 IN
  IF order <= cfg.fk
    THEN /\ Ev.out = "ok" /\ Ev.deleg /\ Ev.vok
         /\ Ev.val = (CASE k = "D1" -> AnaD1(v) [] k = "D2" -> AnaD2(v) [] k = "X" -> IF v = w THEN AnaD2(v) ELSE AnaX(v, w))
    ELSE Ev.out # "ok"                                 \* nothing to delegate to: raises
QGood ==
  LET k == Ev.k  v == Ev.v  w == Ev.w IN
  CASE k = "D1" -> IF v \in Selected THEN NumOK("D1", v, 0) ELSE FnOK(k, v, 0)
    [] k = "D2" -> IF cfg.scheme = 2 THEN Ev.out # "ok"                              \* not offered by the two-point scheme
                   ELSE IF v \in Selected THEN NumOK("D2", v, 0) ELSE FnOK(k, v, 0)
    [] k = "X"  -> IF cfg.scheme # 3 THEN Ev.out # "ok"                              \* offered by the three-point scheme only
                   ELSE IF CrossOn /\ v \in Selected /\ w \in Selected
                     THEN (IF v = w THEN NumOK("D2", v, 0) ELSE NumOK("X", v, w))
                     ELSE FnOK(k, v, w)
TQuery == IsEvent("Query") /\ Query(Ev.k, Ev.v, Ev.w, QGood) /\ UNCHANGED dv

TraceNext == TReset \/ TConfig \/ TUpdate \/ TMove \/ TEval \/ TDer \/ TReturn \/ TQuery
TraceInit ==
  /\ l = 1
  /\ cfg = [scheme |-> 3, nv |-> 0, lo |-> <<>>, hi |-> <<>>, li |-> <<>>, ui |-> <<>>, fk |-> 0, hm |-> 0, c |-> 1, up |-> 1,
            dmax |-> 0, poly |-> <<>>]
  /\ req = <<>> /\ fpos = <<>> /\ wv = <<>> /\ evpt = <<>>
  /\ sel = <<>> /\ cross = FALSE /\ d1 = TRUE
  /\ phase = "idle" /\ out = "" /\ ready = "no"
  /\ fden = <<TRUE, TRUE>> /\ fdpt = <<<<>>, <<>>>>
  /\ q = NoQuery
  /\ dpt = <<>> /\ dst = <<>> /\ xdone = {} /\ ctl = [pc |-> "trace"]
TraceSpec == TraceInit /\ [][TraceNext]_<<vars, l>>
=============================================================================
