--------------------------- MODULE NumDerivLemmas ---------------------------
\* Closed lemmas that justify the table "degree each scheme differentiates
\* exactly" used by NumDeriv/NumDerivTrace (operators E1, E2, ECross).
\* The difference formulas are transcribed from the three schemes (central and
\* one-sided branches); they are evaluated on the monomials x^a (x^a y^b for
\* the cross formula) over integers, where the textbook definition of the
\* derivative of a monomial is exact.  Linearity extends the result to all
\* polynomials (and to several variables: the other coordinates are constants
\* of a one-variable difference).  Each lemma states: exact for every degree
\* up to the table entry, and NOT exact at the next degree.
EXTENDS Integers, TLC
CONSTANT N            \* points x in -N..N, steps in 1..N

RECURSIVE Pw(_, _)
Pw(x, a) == IF a = 0 THEN 1 ELSE x * Pw(x, a - 1)
D1m(x, a) == IF a = 0 THEN 0 ELSE a * Pw(x, a - 1)                  \* (x^a)'
D2m(x, a) == IF a < 2 THEN 0 ELSE a * (a - 1) * Pw(x, a - 2)        \* (x^a)''

X  == (-N)..N
Hs == 1..N
HZ == ((-N)..N) \ {0}

\* --- formulas, cleared of denominators (all divisions in the code are by these factors)
Two(x, h, a)      == Pw(x + h, a) - Pw(x, a) = h * D1m(x, a)                       \* (f2-f1)/h, h of either sign
Three1(x, h, k, a) == Pw(x + h, a) - Pw(x + k, a) = (h - k) * D1m(x, a)            \* (f1-f3)/(hf1-hf3)
Three2(x, h, k, a) ==                                                               \* ((f1-f2)/hf1-(f3-f2)/hf3)*2/(hf1-hf3)
  2 * ((Pw(x + h, a) - Pw(x, a)) * k - (Pw(x + k, a) - Pw(x, a)) * h) = D2m(x, a) * h * k * (h - k)
Five1(x, h, a) == Pw(x - 2 * h, a) - 8 * Pw(x - h, a) + 8 * Pw(x + h, a) - Pw(x + 2 * h, a) = 12 * h * D1m(x, a)
Five2(x, h, a) == 0 - Pw(x - 2 * h, a) + 16 * Pw(x - h, a) - 30 * Pw(x, a) + 16 * Pw(x + h, a) - Pw(x + 2 * h, a)
                    = 12 * h * h * D2m(x, a)
Five1s(x, h, a) == Pw(x, a) - Pw(x - h, a) = h * D1m(x, a)                          \* (f3-f2)/h, (f4-f3)/h with h<0
Five2s(x, h, a) == Pw(x, a) - 2 * Pw(x - h, a) + Pw(x - 2 * h, a) = h * h * D2m(x, a)
CrossF(x, y, h, k, a, b) ==
  (Pw(x + h, a) * Pw(y + k, b) - Pw(x + h, a) * Pw(y - k, b)) - (Pw(x - h, a) * Pw(y + k, b) - Pw(x - h, a) * Pw(y - k, b))
    = 4 * h * k * D1m(x, a) * D1m(y, b)

UpTo(F(_), e)   == (\A a \in 0..e : F(a)) /\ ~F(e + 1)

ASSUME L2   == UpTo(LAMBDA a : \A x \in X, h \in HZ : Two(x, h, a), 1)
ASSUME L3c1 == UpTo(LAMBDA a : \A x \in X, h \in Hs : Three1(x, -h, h, a), 2)
ASSUME L3c2 == UpTo(LAMBDA a : \A x \in X, h \in Hs : Three2(x, -h, h, a), 3)
ASSUME L3s1 == UpTo(LAMBDA a : \A x \in X, h \in HZ, k \in HZ : h # k => Three1(x, h, k, a), 1)
ASSUME L3s2 == UpTo(LAMBDA a : \A x \in X, h \in HZ, k \in HZ : h # k => Three2(x, h, k, a), 2)
ASSUME L5c1 == UpTo(LAMBDA a : \A x \in X, h \in Hs : Five1(x, h, a), 4)
ASSUME L5c2 == UpTo(LAMBDA a : \A x \in X, h \in Hs : Five2(x, h, a), 5)
ASSUME L5s1 == UpTo(LAMBDA a : \A x \in X, h \in HZ : Five1s(x, h, a), 1)
ASSUME L5s2 == UpTo(LAMBDA a : \A x \in X, h \in HZ : Five2s(x, h, a), 2)
ASSUME LX   == /\ \A a \in 0..2, b \in 0..2 : \A x \in X, y \in X, h \in Hs, k \in Hs : CrossF(x, y, h, k, a, b)
               /\ ~(\A x \in X, y \in X, h \in Hs, k \in Hs : CrossF(x, y, h, k, 3, 1))
               /\ ~(\A x \in X, y \in X, h \in Hs, k \in Hs : CrossF(x, y, h, k, 1, 3))

VARIABLE u
Spec == u = 0 /\ [][UNCHANGED u]_u
=============================================================================
