----------------------------- MODULE NumDerivMC -----------------------------
\* Model values for the design model (TLC configuration files cannot spell tuples).
\* With H = 2 a box <<0,12>> has points on the bound (0, 12), next to it (1: x-h
\* rejected, x-h/2 accepted; 3: only the five-point x-2h rejected) and far from it (6);
\* <<5,7>> is narrower than any full stencil around 6; <<6,6>> pins the variable.
EXTENDS NumDeriv
BoxesFull == {<<0, 12>>, <<5, 7>>, <<6, 6>>}
BoxesWide == {<<0, 12>>}
BoxesWideNarrow == {<<0, 12>>, <<5, 7>>}
=============================================================================
