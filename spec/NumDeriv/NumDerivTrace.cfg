SPECIFICATION TraceSpec
CONSTANTS
  NV = 0
  Pts = {}
  Boxes = {}
  Schemes = {}
  Kinds = {}
  H = 0
  D1s = {}
  Bug = "none"
INVARIANTS Transparent ProbeShape Delegates QueryGood OutcomeOK
POSTCONDITION TraceAccepted
CHECK_DEADLOCK FALSE
