---- MODULE NumDerivTrace_TTrace_1790489946 ----
EXTENDS Sequences, TLCExt, Toolbox, Naturals, TLC, NumDerivTrace

_expression ==
    LET NumDerivTrace_TEExpression == INSTANCE NumDerivTrace_TEExpression
    IN NumDerivTrace_TEExpression!expression
----

_trace ==
    LET NumDerivTrace_TETrace == INSTANCE NumDerivTrace_TETrace
    IN NumDerivTrace_TETrace!trace
----

_inv ==
    ~(
        TLCGet("level") = Len(_TETrace)
        /\
        phase = ("idle")
        /\
        dst = (<<>>)
        /\
        cfg = ([up |-> 4096, poly |-> <<<<1, <<1, 1>>>>>>, nv |-> 2, c |-> 2, dmax |-> 5, scheme |-> 3, lo |-> <<-1073741824, -1073741824>>, hi |-> <<1073741824, 1073741824>>, li |-> <<TRUE, TRUE>>, ui |-> <<TRUE, TRUE>>, fk |-> 0, hm |-> 32])
        /\
        fden = (<<TRUE, TRUE>>)
        /\
        cross = (FALSE)
        /\
        dpt = (<<>>)
        /\
        l = (30)
        /\
        fdpt = (<<<<16384, 8192>>, <<16384, 8192>>>>)
        /\
        d1 = (TRUE)
        /\
        out = ("ok")
        /\
        xdone = ({})
        /\
        q = ([v |-> 2, w |-> 0, k |-> "D1", good |-> FALSE])
        /\
        ready = ("ok")
        /\
        ctl = ([pc |-> "trace"])
        /\
        evpt = (<<>>)
        /\
        sel = (<<1, 2>>)
        /\
        fpos = (<<16384, 8192>>)
        /\
        req = (<<16384, 8192>>)
        /\
        wv = (<<16384, 8192>>)
    )
----

_init ==
    /\ phase = _TETrace[1].phase
    /\ sel = _TETrace[1].sel
    /\ ready = _TETrace[1].ready
    /\ ctl = _TETrace[1].ctl
    /\ fdpt = _TETrace[1].fdpt
    /\ fpos = _TETrace[1].fpos
    /\ d1 = _TETrace[1].d1
    /\ fden = _TETrace[1].fden
    /\ dpt = _TETrace[1].dpt
    /\ l = _TETrace[1].l
    /\ out = _TETrace[1].out
    /\ q = _TETrace[1].q
    /\ cross = _TETrace[1].cross
    /\ req = _TETrace[1].req
    /\ dst = _TETrace[1].dst
    /\ evpt = _TETrace[1].evpt
    /\ xdone = _TETrace[1].xdone
    /\ cfg = _TETrace[1].cfg
    /\ wv = _TETrace[1].wv
----

_next ==
    /\ \E i,j \in DOMAIN _TETrace:
        /\ \/ /\ j = i + 1
              /\ i = TLCGet("level")
        /\ phase  = _TETrace[i].phase
        /\ phase' = _TETrace[j].phase
        /\ sel  = _TETrace[i].sel
        /\ sel' = _TETrace[j].sel
        /\ ready  = _TETrace[i].ready
        /\ ready' = _TETrace[j].ready
        /\ ctl  = _TETrace[i].ctl
        /\ ctl' = _TETrace[j].ctl
        /\ fdpt  = _TETrace[i].fdpt
        /\ fdpt' = _TETrace[j].fdpt
        /\ fpos  = _TETrace[i].fpos
        /\ fpos' = _TETrace[j].fpos
        /\ d1  = _TETrace[i].d1
        /\ d1' = _TETrace[j].d1
        /\ fden  = _TETrace[i].fden
        /\ fden' = _TETrace[j].fden
        /\ dpt  = _TETrace[i].dpt
        /\ dpt' = _TETrace[j].dpt
        /\ l  = _TETrace[i].l
        /\ l' = _TETrace[j].l
        /\ out  = _TETrace[i].out
        /\ out' = _TETrace[j].out
        /\ q  = _TETrace[i].q
        /\ q' = _TETrace[j].q
        /\ cross  = _TETrace[i].cross
        /\ cross' = _TETrace[j].cross
        /\ req  = _TETrace[i].req
        /\ req' = _TETrace[j].req
        /\ dst  = _TETrace[i].dst
        /\ dst' = _TETrace[j].dst
        /\ evpt  = _TETrace[i].evpt
        /\ evpt' = _TETrace[j].evpt
        /\ xdone  = _TETrace[i].xdone
        /\ xdone' = _TETrace[j].xdone
        /\ cfg  = _TETrace[i].cfg
        /\ cfg' = _TETrace[j].cfg
        /\ wv  = _TETrace[i].wv
        /\ wv' = _TETrace[j].wv

\* Uncomment the ASSUME below to write the states of the error trace
\* to the given file in Json format. Note that you can pass any tuple
\* to `JsonSerialize`. For example, a sub-sequence of _TETrace.
    \* ASSUME
    \*     LET J == INSTANCE Json
    \*         IN J!JsonSerialize("NumDerivTrace_TTrace_1790489946.json", _TETrace)

=============================================================================

 Note that you can extract this module `NumDerivTrace_TEExpression`
  to a dedicated file to reuse `expression` (the module in the 
  dedicated `NumDerivTrace_TEExpression.tla` file takes precedence 
  over the module `NumDerivTrace_TEExpression` below).

---- MODULE NumDerivTrace_TEExpression ----
EXTENDS Sequences, TLCExt, Toolbox, Naturals, TLC, NumDerivTrace

expression == 
    [
        \* To hide variables of the `NumDerivTrace` spec from the error trace,
        \* remove the variables below.  The trace will be written in the order
        \* of the fields of this record.
        phase |-> phase
        ,sel |-> sel
        ,ready |-> ready
        ,ctl |-> ctl
        ,fdpt |-> fdpt
        ,fpos |-> fpos
        ,d1 |-> d1
        ,fden |-> fden
        ,dpt |-> dpt
        ,l |-> l
        ,out |-> out
        ,q |-> q
        ,cross |-> cross
        ,req |-> req
        ,dst |-> dst
        ,evpt |-> evpt
        ,xdone |-> xdone
        ,cfg |-> cfg
        ,wv |-> wv
        
        \* Put additional constant-, state-, and action-level expressions here:
        \* ,_stateNumber |-> _TEPosition
        \* ,_phaseUnchanged |-> phase = phase'
        
        \* Format the `phase` variable as Json value.
        \* ,_phaseJson |->
        \*     LET J == INSTANCE Json
        \*     IN J!ToJson(phase)
        
        \* Lastly, you may build expressions over arbitrary sets of states by
        \* leveraging the _TETrace operator.  For example, this is how to
        \* count the number of times a spec variable changed up to the current
        \* state in the trace.
        \* ,_phaseModCount |->
        \*     LET F[s \in DOMAIN _TETrace] ==
        \*         IF s = 1 THEN 0
        \*         ELSE IF _TETrace[s].phase # _TETrace[s-1].phase
        \*             THEN 1 + F[s-1] ELSE F[s-1]
        \*     IN F[_TEPosition - 1]
    ]

=============================================================================



Parsing and semantic processing can take forever if the trace below is long.
 In this case, it is advised to uncomment the module below to deserialize the
 trace from a generated binary file.

\*
\*---- MODULE NumDerivTrace_TETrace ----
\*EXTENDS IOUtils, TLC, NumDerivTrace
\*
\*trace == IODeserialize("NumDerivTrace_TTrace_1790489946.bin", TRUE)
\*
\*=============================================================================
\*

---- MODULE NumDerivTrace_TETrace ----
EXTENDS TLC, NumDerivTrace

trace == 
    <<
    ([phase |-> "idle",dst |-> <<>>,cfg |-> [up |-> 1, poly |-> <<>>, nv |-> 0, c |-> 1, dmax |-> 0, scheme |-> 3, lo |-> <<>>, hi |-> <<>>, li |-> <<>>, ui |-> <<>>, fk |-> 0, hm |-> 0],fden |-> <<TRUE, TRUE>>,cross |-> FALSE,dpt |-> <<>>,l |-> 1,fdpt |-> <<<<>>, <<>>>>,d1 |-> TRUE,out |-> "",xdone |-> {},q |-> [v |-> 0, w |-> 0, k |-> "", good |-> TRUE],ready |-> "no",ctl |-> [pc |-> "trace"],evpt |-> <<>>,sel |-> <<>>,fpos |-> <<>>,req |-> <<>>,wv |-> <<>>]),
    ([phase |-> "idle",dst |-> <<>>,cfg |-> [up |-> 4096, poly |-> <<<<1, <<1, 1>>>>>>, nv |-> 2, c |-> 2, dmax |-> 5, scheme |-> 3, lo |-> <<-1073741824, -1073741824>>, hi |-> <<1073741824, 1073741824>>, li |-> <<TRUE, TRUE>>, ui |-> <<TRUE, TRUE>>, fk |-> 0, hm |-> 32],fden |-> <<TRUE, TRUE>>,cross |-> FALSE,dpt |-> <<>>,l |-> 2,fdpt |-> <<<<8192, 8192>>, <<8192, 8192>>>>,d1 |-> TRUE,out |-> "",xdone |-> {},q |-> [v |-> 0, w |-> 0, k |-> "", good |-> TRUE],ready |-> "no",ctl |-> [pc |-> "trace"],evpt |-> <<>>,sel |-> <<>>,fpos |-> <<8192, 8192>>,req |-> <<8192, 8192>>,wv |-> <<8192, 8192>>]),
    ([phase |-> "idle",dst |-> <<>>,cfg |-> [up |-> 4096, poly |-> <<<<1, <<1, 1>>>>>>, nv |-> 2, c |-> 2, dmax |-> 5, scheme |-> 3, lo |-> <<-1073741824, -1073741824>>, hi |-> <<1073741824, 1073741824>>, li |-> <<TRUE, TRUE>>, ui |-> <<TRUE, TRUE>>, fk |-> 0, hm |-> 32],fden |-> <<TRUE, TRUE>>,cross |-> FALSE,dpt |-> <<>>,l |-> 3,fdpt |-> <<<<8192, 8192>>, <<8192, 8192>>>>,d1 |-> TRUE,out |-> "",xdone |-> {},q |-> [v |-> 0, w |-> 0, k |-> "", good |-> TRUE],ready |-> "no",ctl |-> [pc |-> "trace"],evpt |-> <<>>,sel |-> <<1, 2>>,fpos |-> <<8192, 8192>>,req |-> <<8192, 8192>>,wv |-> <<8192, 8192>>]),
    ([phase |-> "active",dst |-> <<>>,cfg |-> [up |-> 4096, poly |-> <<<<1, <<1, 1>>>>>>, nv |-> 2, c |-> 2, dmax |-> 5, scheme |-> 3, lo |-> <<-1073741824, -1073741824>>, hi |-> <<1073741824, 1073741824>>, li |-> <<TRUE, TRUE>>, ui |-> <<TRUE, TRUE>>, fk |-> 0, hm |-> 32],fden |-> <<TRUE, TRUE>>,cross |-> FALSE,dpt |-> <<>>,l |-> 4,fdpt |-> <<<<8192, 8192>>, <<8192, 8192>>>>,d1 |-> TRUE,out |-> "",xdone |-> {},q |-> [v |-> 0, w |-> 0, k |-> "", good |-> TRUE],ready |-> "no",ctl |-> [pc |-> "trace"],evpt |-> <<>>,sel |-> <<1, 2>>,fpos |-> <<8192, 8192>>,req |-> <<8192, 8192>>,wv |-> <<>>]),
    ([phase |-> "active",dst |-> <<>>,cfg |-> [up |-> 4096, poly |-> <<<<1, <<1, 1>>>>>>, nv |-> 2, c |-> 2, dmax |-> 5, scheme |-> 3, lo |-> <<-1073741824, -1073741824>>, hi |-> <<1073741824, 1073741824>>, li |-> <<TRUE, TRUE>>, ui |-> <<TRUE, TRUE>>, fk |-> 0, hm |-> 32],fden |-> <<TRUE, TRUE>>,cross |-> FALSE,dpt |-> <<>>,l |-> 5,fdpt |-> <<<<8192, 8192>>, <<8192, 8192>>>>,d1 |-> TRUE,out |-> "",xdone |-> {},q |-> [v |-> 0, w |-> 0, k |-> "", good |-> TRUE],ready |-> "no",ctl |-> [pc |-> "trace"],evpt |-> <<>>,sel |-> <<1, 2>>,fpos |-> <<8192, 8192>>,req |-> <<8192, 8192>>,wv |-> <<>>]),
    ([phase |-> "active",dst |-> <<>>,cfg |-> [up |-> 4096, poly |-> <<<<1, <<1, 1>>>>>>, nv |-> 2, c |-> 2, dmax |-> 5, scheme |-> 3, lo |-> <<-1073741824, -1073741824>>, hi |-> <<1073741824, 1073741824>>, li |-> <<TRUE, TRUE>>, ui |-> <<TRUE, TRUE>>, fk |-> 0, hm |-> 32],fden |-> <<TRUE, TRUE>>,cross |-> FALSE,dpt |-> <<>>,l |-> 6,fdpt |-> <<<<8192, 8192>>, <<8192, 8192>>>>,d1 |-> TRUE,out |-> "",xdone |-> {},q |-> [v |-> 0, w |-> 0, k |-> "", good |-> TRUE],ready |-> "no",ctl |-> [pc |-> "trace"],evpt |-> <<>>,sel |-> <<1, 2>>,fpos |-> <<8192, 8192>>,req |-> <<8192, 8192>>,wv |-> <<>>]),
    ([phase |-> "active",dst |-> <<>>,cfg |-> [up |-> 4096, poly |-> <<<<1, <<1, 1>>>>>>, nv |-> 2, c |-> 2, dmax |-> 5, scheme |-> 3, lo |-> <<-1073741824, -1073741824>>, hi |-> <<1073741824, 1073741824>>, li |-> <<TRUE, TRUE>>, ui |-> <<TRUE, TRUE>>, fk |-> 0, hm |-> 32],fden |-> <<TRUE, TRUE>>,cross |-> FALSE,dpt |-> <<>>,l |-> 7,fdpt |-> <<<<8192, 8192>>, <<8192, 8192>>>>,d1 |-> TRUE,out |-> "",xdone |-> {},q |-> [v |-> 0, w |-> 0, k |-> "", good |-> TRUE],ready |-> "no",ctl |-> [pc |-> "trace"],evpt |-> <<8192, 8192>>,sel |-> <<1, 2>>,fpos |-> <<8192, 8192>>,req |-> <<8192, 8192>>,wv |-> <<8192, 8192>>]),
    ([phase |-> "active",dst |-> <<>>,cfg |-> [up |-> 4096, poly |-> <<<<1, <<1, 1>>>>>>, nv |-> 2, c |-> 2, dmax |-> 5, scheme |-> 3, lo |-> <<-1073741824, -1073741824>>, hi |-> <<1073741824, 1073741824>>, li |-> <<TRUE, TRUE>>, ui |-> <<TRUE, TRUE>>, fk |-> 0, hm |-> 32],fden |-> <<TRUE, TRUE>>,cross |-> FALSE,dpt |-> <<>>,l |-> 8,fdpt |-> <<<<8064, 8192>>, <<8064, 8192>>>>,d1 |-> TRUE,out |-> "",xdone |-> {},q |-> [v |-> 0, w |-> 0, k |-> "", good |-> TRUE],ready |-> "no",ctl |-> [pc |-> "trace"],evpt |-> <<8192, 8192>>,sel |-> <<1, 2>>,fpos |-> <<8064, 8192>>,req |-> <<8192, 8192>>,wv |-> <<8192, 8192>>]),
    ([phase |-> "active",dst |-> <<>>,cfg |-> [up |-> 4096, poly |-> <<<<1, <<1, 1>>>>>>, nv |-> 2, c |-> 2, dmax |-> 5, scheme |-> 3, lo |-> <<-1073741824, -1073741824>>, hi |-> <<1073741824, 1073741824>>, li |-> <<TRUE, TRUE>>, ui |-> <<TRUE, TRUE>>, fk |-> 0, hm |-> 32],fden |-> <<TRUE, TRUE>>,cross |-> FALSE,dpt |-> <<>>,l |-> 9,fdpt |-> <<<<8064, 8192>>, <<8064, 8192>>>>,d1 |-> TRUE,out |-> "",xdone |-> {},q |-> [v |-> 0, w |-> 0, k |-> "", good |-> TRUE],ready |-> "no",ctl |-> [pc |-> "trace"],evpt |-> <<8064, 8192>>,sel |-> <<1, 2>>,fpos |-> <<8064, 8192>>,req |-> <<8192, 8192>>,wv |-> <<8192, 8192>>]),
    ([phase |-> "active",dst |-> <<>>,cfg |-> [up |-> 4096, poly |-> <<<<1, <<1, 1>>>>>>, nv |-> 2, c |-> 2, dmax |-> 5, scheme |-> 3, lo |-> <<-1073741824, -1073741824>>, hi |-> <<1073741824, 1073741824>>, li |-> <<TRUE, TRUE>>, ui |-> <<TRUE, TRUE>>, fk |-> 0, hm |-> 32],fden |-> <<TRUE, TRUE>>,cross |-> FALSE,dpt |-> <<>>,l |-> 10,fdpt |-> <<<<8320, 8192>>, <<8320, 8192>>>>,d1 |-> TRUE,out |-> "",xdone |-> {},q |-> [v |-> 0, w |-> 0, k |-> "", good |-> TRUE],ready |-> "no",ctl |-> [pc |-> "trace"],evpt |-> <<8064, 8192>>,sel |-> <<1, 2>>,fpos |-> <<8320, 8192>>,req |-> <<8192, 8192>>,wv |-> <<8192, 8192>>]),
    ([phase |-> "active",dst |-> <<>>,cfg |-> [up |-> 4096, poly |-> <<<<1, <<1, 1>>>>>>, nv |-> 2, c |-> 2, dmax |-> 5, scheme |-> 3, lo |-> <<-1073741824, -1073741824>>, hi |-> <<1073741824, 1073741824>>, li |-> <<TRUE, TRUE>>, ui |-> <<TRUE, TRUE>>, fk |-> 0, hm |-> 32],fden |-> <<TRUE, TRUE>>,cross |-> FALSE,dpt |-> <<>>,l |-> 11,fdpt |-> <<<<8320, 8192>>, <<8320, 8192>>>>,d1 |-> TRUE,out |-> "",xdone |-> {},q |-> [v |-> 0, w |-> 0, k |-> "", good |-> TRUE],ready |-> "no",ctl |-> [pc |-> "trace"],evpt |-> <<8320, 8192>>,sel |-> <<1, 2>>,fpos |-> <<8320, 8192>>,req |-> <<8192, 8192>>,wv |-> <<8192, 8192>>]),
    ([phase |-> "active",dst |-> <<>>,cfg |-> [up |-> 4096, poly |-> <<<<1, <<1, 1>>>>>>, nv |-> 2, c |-> 2, dmax |-> 5, scheme |-> 3, lo |-> <<-1073741824, -1073741824>>, hi |-> <<1073741824, 1073741824>>, li |-> <<TRUE, TRUE>>, ui |-> <<TRUE, TRUE>>, fk |-> 0, hm |-> 32],fden |-> <<TRUE, TRUE>>,cross |-> FALSE,dpt |-> <<>>,l |-> 12,fdpt |-> <<<<8192, 8064>>, <<8192, 8064>>>>,d1 |-> TRUE,out |-> "",xdone |-> {},q |-> [v |-> 0, w |-> 0, k |-> "", good |-> TRUE],ready |-> "no",ctl |-> [pc |-> "trace"],evpt |-> <<8320, 8192>>,sel |-> <<1, 2>>,fpos |-> <<8192, 8064>>,req |-> <<8192, 8192>>,wv |-> <<8192, 8192>>]),
    ([phase |-> "active",dst |-> <<>>,cfg |-> [up |-> 4096, poly |-> <<<<1, <<1, 1>>>>>>, nv |-> 2, c |-> 2, dmax |-> 5, scheme |-> 3, lo |-> <<-1073741824, -1073741824>>, hi |-> <<1073741824, 1073741824>>, li |-> <<TRUE, TRUE>>, ui |-> <<TRUE, TRUE>>, fk |-> 0, hm |-> 32],fden |-> <<TRUE, TRUE>>,cross |-> FALSE,dpt |-> <<>>,l |-> 13,fdpt |-> <<<<8192, 8064>>, <<8192, 8064>>>>,d1 |-> TRUE,out |-> "",xdone |-> {},q |-> [v |-> 0, w |-> 0, k |-> "", good |-> TRUE],ready |-> "no",ctl |-> [pc |-> "trace"],evpt |-> <<8192, 8064>>,sel |-> <<1, 2>>,fpos |-> <<8192, 8064>>,req |-> <<8192, 8192>>,wv |-> <<8192, 8192>>]),
    ([phase |-> "active",dst |-> <<>>,cfg |-> [up |-> 4096, poly |-> <<<<1, <<1, 1>>>>>>, nv |-> 2, c |-> 2, dmax |-> 5, scheme |-> 3, lo |-> <<-1073741824, -1073741824>>, hi |-> <<1073741824, 1073741824>>, li |-> <<TRUE, TRUE>>, ui |-> <<TRUE, TRUE>>, fk |-> 0, hm |-> 32],fden |-> <<TRUE, TRUE>>,cross |-> FALSE,dpt |-> <<>>,l |-> 14,fdpt |-> <<<<8192, 8320>>, <<8192, 8320>>>>,d1 |-> TRUE,out |-> "",xdone |-> {},q |-> [v |-> 0, w |-> 0, k |-> "", good |-> TRUE],ready |-> "no",ctl |-> [pc |-> "trace"],evpt |-> <<8192, 8064>>,sel |-> <<1, 2>>,fpos |-> <<8192, 8320>>,req |-> <<8192, 8192>>,wv |-> <<8192, 8192>>]),
    ([phase |-> "active",dst |-> <<>>,cfg |-> [up |-> 4096, poly |-> <<<<1, <<1, 1>>>>>>, nv |-> 2, c |-> 2, dmax |-> 5, scheme |-> 3, lo |-> <<-1073741824, -1073741824>>, hi |-> <<1073741824, 1073741824>>, li |-> <<TRUE, TRUE>>, ui |-> <<TRUE, TRUE>>, fk |-> 0, hm |-> 32],fden |-> <<TRUE, TRUE>>,cross |-> FALSE,dpt |-> <<>>,l |-> 15,fdpt |-> <<<<8192, 8320>>, <<8192, 8320>>>>,d1 |-> TRUE,out |-> "",xdone |-> {},q |-> [v |-> 0, w |-> 0, k |-> "", good |-> TRUE],ready |-> "no",ctl |-> [pc |-> "trace"],evpt |-> <<8192, 8320>>,sel |-> <<1, 2>>,fpos |-> <<8192, 8320>>,req |-> <<8192, 8192>>,wv |-> <<8192, 8192>>]),
    ([phase |-> "active",dst |-> <<>>,cfg |-> [up |-> 4096, poly |-> <<<<1, <<1, 1>>>>>>, nv |-> 2, c |-> 2, dmax |-> 5, scheme |-> 3, lo |-> <<-1073741824, -1073741824>>, hi |-> <<1073741824, 1073741824>>, li |-> <<TRUE, TRUE>>, ui |-> <<TRUE, TRUE>>, fk |-> 0, hm |-> 32],fden |-> <<TRUE, TRUE>>,cross |-> FALSE,dpt |-> <<>>,l |-> 16,fdpt |-> <<<<8192, 8192>>, <<8192, 8192>>>>,d1 |-> TRUE,out |-> "",xdone |-> {},q |-> [v |-> 0, w |-> 0, k |-> "", good |-> TRUE],ready |-> "no",ctl |-> [pc |-> "trace"],evpt |-> <<8192, 8320>>,sel |-> <<1, 2>>,fpos |-> <<8192, 8192>>,req |-> <<8192, 8192>>,wv |-> <<8192, 8192>>]),
    ([phase |-> "idle",dst |-> <<>>,cfg |-> [up |-> 4096, poly |-> <<<<1, <<1, 1>>>>>>, nv |-> 2, c |-> 2, dmax |-> 5, scheme |-> 3, lo |-> <<-1073741824, -1073741824>>, hi |-> <<1073741824, 1073741824>>, li |-> <<TRUE, TRUE>>, ui |-> <<TRUE, TRUE>>, fk |-> 0, hm |-> 32],fden |-> <<TRUE, TRUE>>,cross |-> FALSE,dpt |-> <<>>,l |-> 17,fdpt |-> <<<<8192, 8192>>, <<8192, 8192>>>>,d1 |-> TRUE,out |-> "ok",xdone |-> {},q |-> [v |-> 0, w |-> 0, k |-> "", good |-> TRUE],ready |-> "ok",ctl |-> [pc |-> "trace"],evpt |-> <<>>,sel |-> <<1, 2>>,fpos |-> <<8192, 8192>>,req |-> <<8192, 8192>>,wv |-> <<8192, 8192>>]),
    ([phase |-> "idle",dst |-> <<>>,cfg |-> [up |-> 4096, poly |-> <<<<1, <<1, 1>>>>>>, nv |-> 2, c |-> 2, dmax |-> 5, scheme |-> 3, lo |-> <<-1073741824, -1073741824>>, hi |-> <<1073741824, 1073741824>>, li |-> <<TRUE, TRUE>>, ui |-> <<TRUE, TRUE>>, fk |-> 0, hm |-> 32],fden |-> <<TRUE, TRUE>>,cross |-> FALSE,dpt |-> <<>>,l |-> 18,fdpt |-> <<<<8192, 8192>>, <<8192, 8192>>>>,d1 |-> TRUE,out |-> "ok",xdone |-> {},q |-> [v |-> 2, w |-> 0, k |-> "D1", good |-> TRUE],ready |-> "ok",ctl |-> [pc |-> "trace"],evpt |-> <<>>,sel |-> <<1, 2>>,fpos |-> <<8192, 8192>>,req |-> <<8192, 8192>>,wv |-> <<8192, 8192>>]),
    ([phase |-> "active",dst |-> <<>>,cfg |-> [up |-> 4096, poly |-> <<<<1, <<1, 1>>>>>>, nv |-> 2, c |-> 2, dmax |-> 5, scheme |-> 3, lo |-> <<-1073741824, -1073741824>>, hi |-> <<1073741824, 1073741824>>, li |-> <<TRUE, TRUE>>, ui |-> <<TRUE, TRUE>>, fk |-> 0, hm |-> 32],fden |-> <<TRUE, TRUE>>,cross |-> FALSE,dpt |-> <<>>,l |-> 19,fdpt |-> <<<<8192, 8192>>, <<8192, 8192>>>>,d1 |-> TRUE,out |-> "",xdone |-> {},q |-> [v |-> 0, w |-> 0, k |-> "", good |-> TRUE],ready |-> "ok",ctl |-> [pc |-> "trace"],evpt |-> <<>>,sel |-> <<1, 2>>,fpos |-> <<8192, 8192>>,req |-> <<16384, 8192>>,wv |-> <<>>]),
    ([phase |-> "active",dst |-> <<>>,cfg |-> [up |-> 4096, poly |-> <<<<1, <<1, 1>>>>>>, nv |-> 2, c |-> 2, dmax |-> 5, scheme |-> 3, lo |-> <<-1073741824, -1073741824>>, hi |-> <<1073741824, 1073741824>>, li |-> <<TRUE, TRUE>>, ui |-> <<TRUE, TRUE>>, fk |-> 0, hm |-> 32],fden |-> <<TRUE, TRUE>>,cross |-> FALSE,dpt |-> <<>>,l |-> 20,fdpt |-> <<<<16384, 8192>>, <<16384, 8192>>>>,d1 |-> TRUE,out |-> "",xdone |-> {},q |-> [v |-> 0, w |-> 0, k |-> "", good |-> TRUE],ready |-> "ok",ctl |-> [pc |-> "trace"],evpt |-> <<>>,sel |-> <<1, 2>>,fpos |-> <<16384, 8192>>,req |-> <<16384, 8192>>,wv |-> <<>>]),
    ([phase |-> "active",dst |-> <<>>,cfg |-> [up |-> 4096, poly |-> <<<<1, <<1, 1>>>>>>, nv |-> 2, c |-> 2, dmax |-> 5, scheme |-> 3, lo |-> <<-1073741824, -1073741824>>, hi |-> <<1073741824, 1073741824>>, li |-> <<TRUE, TRUE>>, ui |-> <<TRUE, TRUE>>, fk |-> 0, hm |-> 32],fden |-> <<TRUE, TRUE>>,cross |-> FALSE,dpt |-> <<>>,l |-> 21,fdpt |-> <<<<16384, 8192>>, <<16384, 8192>>>>,d1 |-> TRUE,out |-> "",xdone |-> {},q |-> [v |-> 0, w |-> 0, k |-> "", good |-> TRUE],ready |-> "ok",ctl |-> [pc |-> "trace"],evpt |-> <<>>,sel |-> <<1, 2>>,fpos |-> <<16384, 8192>>,req |-> <<16384, 8192>>,wv |-> <<>>]),
    ([phase |-> "active",dst |-> <<>>,cfg |-> [up |-> 4096, poly |-> <<<<1, <<1, 1>>>>>>, nv |-> 2, c |-> 2, dmax |-> 5, scheme |-> 3, lo |-> <<-1073741824, -1073741824>>, hi |-> <<1073741824, 1073741824>>, li |-> <<TRUE, TRUE>>, ui |-> <<TRUE, TRUE>>, fk |-> 0, hm |-> 32],fden |-> <<TRUE, TRUE>>,cross |-> FALSE,dpt |-> <<>>,l |-> 22,fdpt |-> <<<<16384, 8192>>, <<16384, 8192>>>>,d1 |-> TRUE,out |-> "",xdone |-> {},q |-> [v |-> 0, w |-> 0, k |-> "", good |-> TRUE],ready |-> "ok",ctl |-> [pc |-> "trace"],evpt |-> <<16384, 8192>>,sel |-> <<1, 2>>,fpos |-> <<16384, 8192>>,req |-> <<16384, 8192>>,wv |-> <<16384, 8192>>]),
    ([phase |-> "active",dst |-> <<>>,cfg |-> [up |-> 4096, poly |-> <<<<1, <<1, 1>>>>>>, nv |-> 2, c |-> 2, dmax |-> 5, scheme |-> 3, lo |-> <<-1073741824, -1073741824>>, hi |-> <<1073741824, 1073741824>>, li |-> <<TRUE, TRUE>>, ui |-> <<TRUE, TRUE>>, fk |-> 0, hm |-> 32],fden |-> <<TRUE, TRUE>>,cross |-> FALSE,dpt |-> <<>>,l |-> 23,fdpt |-> <<<<16192, 8192>>, <<16192, 8192>>>>,d1 |-> TRUE,out |-> "",xdone |-> {},q |-> [v |-> 0, w |-> 0, k |-> "", good |-> TRUE],ready |-> "ok",ctl |-> [pc |-> "trace"],evpt |-> <<16384, 8192>>,sel |-> <<1, 2>>,fpos |-> <<16192, 8192>>,req |-> <<16384, 8192>>,wv |-> <<16384, 8192>>]),
    ([phase |-> "active",dst |-> <<>>,cfg |-> [up |-> 4096, poly |-> <<<<1, <<1, 1>>>>>>, nv |-> 2, c |-> 2, dmax |-> 5, scheme |-> 3, lo |-> <<-1073741824, -1073741824>>, hi |-> <<1073741824, 1073741824>>, li |-> <<TRUE, TRUE>>, ui |-> <<TRUE, TRUE>>, fk |-> 0, hm |-> 32],fden |-> <<TRUE, TRUE>>,cross |-> FALSE,dpt |-> <<>>,l |-> 24,fdpt |-> <<<<16192, 8192>>, <<16192, 8192>>>>,d1 |-> TRUE,out |-> "",xdone |-> {},q |-> [v |-> 0, w |-> 0, k |-> "", good |-> TRUE],ready |-> "ok",ctl |-> [pc |-> "trace"],evpt |-> <<16192, 8192>>,sel |-> <<1, 2>>,fpos |-> <<16192, 8192>>,req |-> <<16384, 8192>>,wv |-> <<16384, 8192>>]),
    ([phase |-> "active",dst |-> <<>>,cfg |-> [up |-> 4096, poly |-> <<<<1, <<1, 1>>>>>>, nv |-> 2, c |-> 2, dmax |-> 5, scheme |-> 3, lo |-> <<-1073741824, -1073741824>>, hi |-> <<1073741824, 1073741824>>, li |-> <<TRUE, TRUE>>, ui |-> <<TRUE, TRUE>>, fk |-> 0, hm |-> 32],fden |-> <<TRUE, TRUE>>,cross |-> FALSE,dpt |-> <<>>,l |-> 25,fdpt |-> <<<<16576, 8192>>, <<16576, 8192>>>>,d1 |-> TRUE,out |-> "",xdone |-> {},q |-> [v |-> 0, w |-> 0, k |-> "", good |-> TRUE],ready |-> "ok",ctl |-> [pc |-> "trace"],evpt |-> <<16192, 8192>>,sel |-> <<1, 2>>,fpos |-> <<16576, 8192>>,req |-> <<16384, 8192>>,wv |-> <<16384, 8192>>]),
    ([phase |-> "active",dst |-> <<>>,cfg |-> [up |-> 4096, poly |-> <<<<1, <<1, 1>>>>>>, nv |-> 2, c |-> 2, dmax |-> 5, scheme |-> 3, lo |-> <<-1073741824, -1073741824>>, hi |-> <<1073741824, 1073741824>>, li |-> <<TRUE, TRUE>>, ui |-> <<TRUE, TRUE>>, fk |-> 0, hm |-> 32],fden |-> <<TRUE, TRUE>>,cross |-> FALSE,dpt |-> <<>>,l |-> 26,fdpt |-> <<<<16576, 8192>>, <<16576, 8192>>>>,d1 |-> TRUE,out |-> "",xdone |-> {},q |-> [v |-> 0, w |-> 0, k |-> "", good |-> TRUE],ready |-> "ok",ctl |-> [pc |-> "trace"],evpt |-> <<16576, 8192>>,sel |-> <<1, 2>>,fpos |-> <<16576, 8192>>,req |-> <<16384, 8192>>,wv |-> <<16384, 8192>>]),
    ([phase |-> "active",dst |-> <<>>,cfg |-> [up |-> 4096, poly |-> <<<<1, <<1, 1>>>>>>, nv |-> 2, c |-> 2, dmax |-> 5, scheme |-> 3, lo |-> <<-1073741824, -1073741824>>, hi |-> <<1073741824, 1073741824>>, li |-> <<TRUE, TRUE>>, ui |-> <<TRUE, TRUE>>, fk |-> 0, hm |-> 32],fden |-> <<TRUE, TRUE>>,cross |-> FALSE,dpt |-> <<>>,l |-> 27,fdpt |-> <<<<16384, 8192>>, <<16384, 8192>>>>,d1 |-> TRUE,out |-> "",xdone |-> {},q |-> [v |-> 0, w |-> 0, k |-> "", good |-> TRUE],ready |-> "ok",ctl |-> [pc |-> "trace"],evpt |-> <<16576, 8192>>,sel |-> <<1, 2>>,fpos |-> <<16384, 8192>>,req |-> <<16384, 8192>>,wv |-> <<16384, 8192>>]),
    ([phase |-> "idle",dst |-> <<>>,cfg |-> [up |-> 4096, poly |-> <<<<1, <<1, 1>>>>>>, nv |-> 2, c |-> 2, dmax |-> 5, scheme |-> 3, lo |-> <<-1073741824, -1073741824>>, hi |-> <<1073741824, 1073741824>>, li |-> <<TRUE, TRUE>>, ui |-> <<TRUE, TRUE>>, fk |-> 0, hm |-> 32],fden |-> <<TRUE, TRUE>>,cross |-> FALSE,dpt |-> <<>>,l |-> 28,fdpt |-> <<<<16384, 8192>>, <<16384, 8192>>>>,d1 |-> TRUE,out |-> "ok",xdone |-> {},q |-> [v |-> 0, w |-> 0, k |-> "", good |-> TRUE],ready |-> "ok",ctl |-> [pc |-> "trace"],evpt |-> <<>>,sel |-> <<1, 2>>,fpos |-> <<16384, 8192>>,req |-> <<16384, 8192>>,wv |-> <<16384, 8192>>]),
    ([phase |-> "idle",dst |-> <<>>,cfg |-> [up |-> 4096, poly |-> <<<<1, <<1, 1>>>>>>, nv |-> 2, c |-> 2, dmax |-> 5, scheme |-> 3, lo |-> <<-1073741824, -1073741824>>, hi |-> <<1073741824, 1073741824>>, li |-> <<TRUE, TRUE>>, ui |-> <<TRUE, TRUE>>, fk |-> 0, hm |-> 32],fden |-> <<TRUE, TRUE>>,cross |-> FALSE,dpt |-> <<>>,l |-> 29,fdpt |-> <<<<16384, 8192>>, <<16384, 8192>>>>,d1 |-> TRUE,out |-> "ok",xdone |-> {},q |-> [v |-> 1, w |-> 0, k |-> "D1", good |-> TRUE],ready |-> "ok",ctl |-> [pc |-> "trace"],evpt |-> <<>>,sel |-> <<1, 2>>,fpos |-> <<16384, 8192>>,req |-> <<16384, 8192>>,wv |-> <<16384, 8192>>]),
    ([phase |-> "idle",dst |-> <<>>,cfg |-> [up |-> 4096, poly |-> <<<<1, <<1, 1>>>>>>, nv |-> 2, c |-> 2, dmax |-> 5, scheme |-> 3, lo |-> <<-1073741824, -1073741824>>, hi |-> <<1073741824, 1073741824>>, li |-> <<TRUE, TRUE>>, ui |-> <<TRUE, TRUE>>, fk |-> 0, hm |-> 32],fden |-> <<TRUE, TRUE>>,cross |-> FALSE,dpt |-> <<>>,l |-> 30,fdpt |-> <<<<16384, 8192>>, <<16384, 8192>>>>,d1 |-> TRUE,out |-> "ok",xdone |-> {},q |-> [v |-> 2, w |-> 0, k |-> "D1", good |-> FALSE],ready |-> "ok",ctl |-> [pc |-> "trace"],evpt |-> <<>>,sel |-> <<1, 2>>,fpos |-> <<16384, 8192>>,req |-> <<16384, 8192>>,wv |-> <<16384, 8192>>])
    >>
----


=============================================================================

---- CONFIG NumDerivTrace_TTrace_1790489946 ----
CONSTANTS
    NV = 0
    Pts = { }
    Boxes = { }
    Schemes = { }
    Kinds = { }
    H = 0
    D1s = { }
    Bug = "none"

INVARIANT
    _inv

CHECK_DEADLOCK
    \* CHECK_DEADLOCK off because of PROPERTY or INVARIANT above.
    FALSE

INIT
    _init

NEXT
    _next

CONSTANT
    _TETrace <- _trace

ALIAS
    _expression
=============================================================================
\* Generated on Sun Sep 27 06:19:08 UTC 2026