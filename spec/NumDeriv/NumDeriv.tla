------------------------------ MODULE NumDeriv ------------------------------
\* C12 - numerical-derivative wrappers (Two/Three/FivePointsNumericalDerivative
\* over AbstractNumericalDerivative) are transparent.
\*
\* Two layers in one module:
\*
\*  (1) PRIMITIVES = what any implementation of the statement may do, seen from
\*      the wrapped function: a public update begins (Begin), the wrapped
\*      function receives parameter values (FnMove), is evaluated (FnEval), has
\*      its own analytic derivatives switched (FnDer), the public call returns
\*      (End); configuration calls (SetSel, SetCross, SetD1) and derivative
\*      queries (Query).  The property is stated on these: Transparent,
\*      ProbeShape, Delegates, QueryGood, OutcomeOK.  The trace specification
\*      NumDerivTrace maps every recorded event to exactly one primitive.
\*
\*  (2) DESIGN = the update algorithm structured like the code (forward;
\*      per selected variable: probe x-h / x+h with retry on a rejected probe,
\*      one-sided fallback; 3-point cross-derivative double loop; re-enable;
\*      restore; return), every step being one primitive plus control state.
\*      TLC explores it for all selections/orders, boxes and points on / next
\*      to bounds and shows that the structure satisfies the property; the
\*      constant Bug seeds the defects found in the code (restore only the last
\*      variable, broken restore chain, raise without restore, partial
\*      refresh) and TLC must reject each of them.
\*
\* Coordinates are integers on a grid (design: abstract units, h = H units;
\* traces: numerators at the scenario's dyadic scale, h = hm*(c+|k|) units).
EXTENDS Integers, Sequences, FiniteSets, TLC

CONSTANTS NV,       \* design: number of variables
          Pts,      \* design: coordinates a request may use
          Boxes,    \* design: <<lo, hi>> boxes a variable may have (bounds inclusive)
          Schemes,  \* design: subset of {2, 3, 5}
          Kinds,    \* design: subset of {0, 1, 2}: wrapped function offers no / first / first+second derivatives
          H,        \* design: probe step in grid units
          D1s,      \* design: values the wrapper's first-order flag may take
          Bug       \* "none" or a seeded defect (see DESIGN part)

VARIABLES cfg,      \* [scheme, nv, lo, hi, li, ui, fk, hm, c, up (, poly, dmax in traces)]
          sel,      \* ordered selected variables (setParametersToDerivate)
          cross,    \* cross derivatives enabled
          d1,       \* wrapper's enableFirstOrderDerivatives flag
          req,      \* requested point: what the wrapped function must hold when a call returns
          fpos,     \* where the wrapped function sits
          phase,    \* "idle" | "active" | "refused"
          wv,       \* point at which the value the wrapper reports was sampled (<<>> = not known to be f(req))
          evpt,     \* last evaluation point of the current update (<<>> = none)
          fden,     \* <<first, second>>: wrapped function's own derivatives enabled
          fdpt,     \* <<p1, p2>>: point at which the wrapped function's derivative caches were computed
          out,      \* outcome of the last public update
          ready,    \* "no" | "ok" | "raised": outcome of the last update that ran since the last configuration change
          q,        \* last derivative query [k, v, w, good]
          dpt, dst, xdone, ctl     \* design ghosts: base point / accepted offsets per variable, pairs done, control

sv == <<cfg, sel, cross, d1, req, fpos, phase, wv, evpt, fden, fdpt, out, ready, q>>
dv == <<dpt, dst, xdone, ctl>>
vars == <<sv, dv>>

Vars == 1..cfg.nv
Abs(x) == IF x < 0 THEN -x ELSE x
Rng(s) == {s[i] : i \in DOMAIN s}
Selected == Rng(sel)
InBox(v, x) == /\ IF cfg.li[v] THEN x >= cfg.lo[v] ELSE x > cfg.lo[v]
               /\ IF cfg.ui[v] THEN x <= cfg.hi[v] ELSE x < cfg.hi[v]
InBoxAll(p) == \A v \in Vars : InBox(v, p[v])
Diff(p, r) == {v \in Vars : p[v] # r[v]}
Merge(p, asg) == [v \in Vars |-> IF v \in DOMAIN asg THEN asg[v] ELSE p[v]]
CrossOn == cross /\ cfg.scheme = 3

\* probe step of variable v at the requested point
Hof(v) == IF cfg.hm = 0 THEN H ELSE cfg.hm * (cfg.c + Abs(req[v] \div cfg.up))
Room(v, d) == InBox(v, req[v] + d)

\* where a full central stencil fits, where only a one-sided one does, where none does
Central(v) == LET h == Hof(v) IN
  CASE cfg.scheme = 2 -> Room(v, -h)
    [] cfg.scheme = 3 -> Room(v, -h) /\ Room(v, h)
    [] cfg.scheme = 5 -> Room(v, -2 * h) /\ Room(v, 2 * h)
OneSided(v) == LET h == Hof(v) IN ~Central(v) /\
  CASE cfg.scheme = 2 -> Room(v, h)
    [] cfg.scheme = 3 -> Room(v, -h) \/ Room(v, h)
    [] cfg.scheme = 5 -> Room(v, -2 * h) \/ Room(v, 2 * h)
Narrow(v) == ~Central(v) /\ ~OneSided(v)
CornersIn(a, b) == \A s \in {-1, 1}, t \in {-1, 1} : Room(a, s * Hof(a)) /\ Room(b, t * Hof(b))

\* degrees differentiated exactly (proved from the difference formulas in NumDerivLemmas)
E1(scheme, central) == IF ~central THEN 1 ELSE CASE scheme = 2 -> 1 [] scheme = 3 -> 2 [] scheme = 5 -> 4
E2(scheme, central) == IF ~central THEN 2 ELSE CASE scheme = 3 -> 3 [] scheme = 5 -> 5 [] OTHER -> -1
ECross == 2

\* a raise may escape an update only where the statement allows it: no stencil
\* fits for some selected variable, or a cross-derivative corner is outside the box
RaiseAllowed == \/ \E v \in Selected : Narrow(v)
                \/ CrossOn /\ \E a \in Selected, b \in Selected : a # b /\ ~CornersIn(a, b)

-----------------------------------------------------------------------------
\* PRIMITIVES (shared with the trace specification)

NoQuery == [k |-> "", v |-> 0, w |-> 0, good |-> TRUE]

Begin(entry, asg) ==
  /\ phase = "idle"
  /\ DOMAIN asg \subseteq Vars /\ DOMAIN asg # {}
  /\ entry \in {"set", "setall", "setone", "match", "f"}
  /\ entry = "setall" => DOMAIN asg = Vars
  /\ entry = "setone" => Cardinality(DOMAIN asg) = 1
  /\ IF \A v \in DOMAIN asg : InBox(v, asg[v])
       THEN /\ req' = Merge(req, asg) /\ phase' = "active" /\ wv' = <<>>
       ELSE /\ phase' = "refused" /\ UNCHANGED <<req, wv>>        \* the update is refused as a whole
  /\ evpt' = <<>> /\ out' = "" /\ q' = NoQuery
  /\ UNCHANGED <<cfg, sel, cross, d1, fpos, fden, fdpt, ready>>

\* the wrapped function receives parameter values: it never leaves the box and
\* only selected variables are ever perturbed (none when derivatives are off)
FnMove(p) ==
  /\ phase = "active"
  /\ InBoxAll(p)
  /\ \A v \in Vars : (v \notin Selected \/ ~d1) => p[v] = req[v]
  /\ fpos' = p
  /\ fdpt' = [k \in 1..2 |-> IF fden[k] THEN p ELSE fdpt[k]]
  /\ UNCHANGED <<cfg, sel, cross, d1, req, phase, wv, evpt, fden, out, ready, q>>

FnEval ==
  /\ phase = "active"
  /\ evpt' = fpos
  /\ wv' = IF fpos = req THEN req ELSE wv
  /\ UNCHANGED <<cfg, sel, cross, d1, req, fpos, phase, fden, fdpt, out, ready, q>>

\* the wrapped function's own derivatives are switched; a function that provides
\* derivatives answers for the point it sits at from the moment they are on
FnDer(k, on) ==
  /\ phase = "active"
  /\ fden' = [fden EXCEPT ![k] = on]
  /\ fdpt' = IF on /\ ~fden[k] THEN [fdpt EXCEPT ![k] = fpos] ELSE fdpt
  /\ UNCHANGED <<cfg, sel, cross, d1, req, fpos, phase, wv, evpt, out, ready, q>>

\* the public call returns with outcome o ("ok" | "raise"); wvv = sample point of the value now reported
End(o, wvv) ==
  /\ phase \in {"active", "refused"}
  /\ phase' = "idle"
  /\ out' = CASE phase = "refused" -> IF o = "raise" THEN "refused" ELSE "bad-ok"
              [] o = "ok" -> "ok"
              [] OTHER -> IF RaiseAllowed THEN "raise" ELSE "bad-raise"
  /\ ready' = IF phase = "refused" THEN ready ELSE IF o = "ok" THEN "ok" ELSE "raised"   \* a refused update changes nothing
  /\ wv' = wvv
  /\ evpt' = <<>>
  /\ UNCHANGED <<cfg, sel, cross, d1, req, fpos, fden, fdpt, q>>

Config(s, c, d) ==
  /\ phase = "idle"
  /\ sel' = s /\ cross' = c /\ d1' = d /\ ready' = "no" /\ q' = NoQuery
  /\ UNCHANGED <<cfg, req, fpos, phase, wv, evpt, fden, fdpt, out>>

Query(k, v, w, good) ==
  /\ phase = "idle" /\ ready = "ok" /\ d1
  /\ q' = [k |-> k, v |-> v, w |-> w, good |-> good]
  /\ UNCHANGED <<cfg, sel, cross, d1, req, fpos, phase, wv, evpt, fden, fdpt, out, ready>>

-----------------------------------------------------------------------------
\* THE PROPERTY

\* after any update entry point (also a refused or a raising one) the wrapped
\* function sits at exactly the requested parameters and the wrapper reports the value there
Transparent == phase = "idle" => fpos = req /\ wv = req

\* every evaluation differs from the requested point in at most one selected
\* coordinate (two while cross derivatives are computed)
ProbeShape == evpt # <<>> =>
  /\ Diff(evpt, req) \subseteq Selected
  /\ Cardinality(Diff(evpt, req)) <= (IF CrossOn THEN 2 ELSE 1)

\* the wrapped function's own derivatives are on and refer to the requested
\* point whenever the wrapper can be asked to delegate
Delegates == (phase = "idle" /\ d1 /\ ready # "no") => \A k \in 1..cfg.fk : fden[k] /\ fdpt[k] = req

\* every derivative a query returns is the derivative at the requested point
QueryGood == q.good

\* no raise escapes unless the statement allows it; a refused update raises
OutcomeOK == out \in {"", "ok", "raise", "refused"}

-----------------------------------------------------------------------------
\* DESIGN: the update structured like the code

Pc(s) == ctl.pc = s
SetsOf(p, S) == [v \in Vars |-> IF v \in S THEN req[v] ELSE p[v]]     \* p with the variables of S put back
Pert == Diff(fpos, req)

AllSels == UNION {{s \in [1..n -> 1..NV] : \A i \in 1..n, j \in 1..n : i # j => s[i] # s[j]} : n \in 0..NV}
PairsOf(s) == LET n == Len(s)
                  idx == [k \in 1..(n * n) |-> <<((k - 1) \div n) + 1, ((k - 1) % n) + 1>>]
              IN SelectSeq([k \in 1..(n * n) |-> <<s[idx[k][1]], s[idx[k][2]]>>], LAMBDA pr : pr[1] # pr[2])

Idle0 == [pc |-> "idle", upd |-> {}, todo |-> <<>>, cur |-> 0, last |-> 0, h |-> 0, ntry |-> 0, stage |-> 0,
          hf1 |-> 0, hf3 |-> 0, acc |-> {}, pairs |-> <<>>, corner |-> 0, pl |-> {}]

NoDpt == [v \in 1..NV |-> <<>>]
NoDst == [v \in 1..NV |-> {}]

DInit ==
  /\ cfg \in {[scheme |-> s, nv |-> NV, lo |-> [v \in 1..NV |-> b[v][1]], hi |-> [v \in 1..NV |-> b[v][2]],
               li |-> [v \in 1..NV |-> TRUE], ui |-> [v \in 1..NV |-> TRUE], fk |-> k, hm |-> 0, c |-> 0, up |-> 1] :
              s \in Schemes, k \in Kinds, b \in [1..NV -> Boxes]}
  /\ req \in [1..NV -> Pts] /\ InBoxAll(req)
  /\ fpos = req /\ wv = req /\ evpt = <<>>
  /\ sel = <<>> /\ cross = FALSE /\ d1 = TRUE
  /\ phase = "idle" /\ out = "" /\ ready = "no"
  /\ fden = <<TRUE, TRUE>> /\ fdpt = <<req, req>>
  /\ q = NoQuery
  /\ dpt = NoDpt /\ dst = NoDst /\ xdone = {}
  /\ ctl = Idle0

DBegin(entry, asg) ==
  /\ Pc("idle") /\ q = NoQuery /\ Begin(entry, asg)
  /\ ctl' = [Idle0 EXCEPT !.pc = IF phase' = "refused" THEN "ret" ELSE "fwd", !.upd = DOMAIN asg]
  /\ IF phase' = "refused" THEN UNCHANGED <<dpt, dst, xdone>>       \* nothing changes: the caches stay valid
     ELSE dpt' = NoDpt /\ dst' = NoDst /\ xdone' = {}

\* entry point forwards the list to the wrapped function, updateDerivatives starts
DForward ==
  /\ Pc("fwd") /\ FnMove(SetsOf(fpos, ctl.upd))
  /\ ctl' = [ctl EXCEPT !.pc = IF d1 /\ sel # <<>> THEN "dis1" ELSE "plain1"]
  /\ UNCHANGED <<dpt, dst, xdone>>
DDisable1 == Pc("dis1") /\ FnDer(1, FALSE) /\ ctl' = [ctl EXCEPT !.pc = "dis2"] /\ UNCHANGED <<dpt, dst, xdone>>
DDisable2 == Pc("dis2") /\ FnDer(2, FALSE) /\ ctl' = [ctl EXCEPT !.pc = "set2"] /\ UNCHANGED <<dpt, dst, xdone>>
DSet2 == Pc("set2") /\ FnMove(SetsOf(fpos, ctl.upd)) /\ ctl' = [ctl EXCEPT !.pc = "base"] /\ UNCHANGED <<dpt, dst, xdone>>
DBase ==
  /\ Pc("base") /\ FnEval
  /\ ctl' = [ctl EXCEPT !.pc = "next",
                        !.todo = IF Bug = "partial" THEN SelectSeq(sel, LAMBDA v : v \in ctl.upd) ELSE sel]
  /\ UNCHANGED <<dpt, dst, xdone>>

\* derivatives off or nothing selected: set, evaluate, return
DPlain1 == Pc("plain1") /\ FnDer(1, d1) /\ ctl' = [ctl EXCEPT !.pc = "plain2"] /\ UNCHANGED <<dpt, dst, xdone>>
DPlain2 == Pc("plain2") /\ FnDer(2, TRUE) /\ ctl' = [ctl EXCEPT !.pc = "plain3"] /\ UNCHANGED <<dpt, dst, xdone>>
DPlain3 == Pc("plain3") /\ FnMove(SetsOf(fpos, ctl.upd)) /\ ctl' = [ctl EXCEPT !.pc = "plain4"] /\ UNCHANGED <<dpt, dst, xdone>>
DPlain4 == Pc("plain4") /\ FnEval /\ ctl' = [ctl EXCEPT !.pc = "ret"] /\ UNCHANGED <<dpt, dst, xdone>>

\* next selected variable
DNext ==
  /\ Pc("next") /\ UNCHANGED <<sv, dpt, dst, xdone>>
  /\ IF ctl.todo = <<>>
       THEN ctl' = [ctl EXCEPT !.pc = IF CrossOn THEN "prepairs" ELSE "en1", !.cur = 0]
       ELSE LET v == Head(ctl.todo) IN
            ctl' = [ctl EXCEPT !.cur = v, !.todo = Tail(ctl.todo), !.ntry = 0, !.hf1 = 0, !.hf3 = 0, !.acc = {},
                               !.h = -Hof(v), !.stage = IF cfg.scheme = 5 THEN 11 ELSE 1,
                               !.pc = IF cfg.scheme = 5 THEN "five" ELSE "try"]

\* probe position: the current variable at req+off; the previously perturbed variable is put back by the same call
ProbePos(off) == [v \in Vars |-> IF v = ctl.cur THEN req[v] + off
                                  ELSE IF v = ctl.last THEN req[v] ELSE fpos[v]]

\* two- and three-point schemes: first point x-h, on a rejected probe +h, -h/2, +h/2 ...;
\* three-point second point: the mirror image, or the half step on the same side
DTryOk ==
  /\ Pc("try") /\ InBox(ctl.cur, req[ctl.cur] + ctl.h)
  /\ FnMove(ProbePos(ctl.h))
  /\ ctl' = [ctl EXCEPT !.pc = "tryeval", !.last = ctl.cur]
  /\ UNCHANGED <<dpt, dst, xdone>>
DTryEval ==
  /\ Pc("tryeval") /\ FnEval /\ UNCHANGED <<dpt, dst, xdone>>
  /\ IF cfg.scheme = 2 \/ ctl.stage = 2
       THEN ctl' = [ctl EXCEPT !.pc = "endvar", !.hf1 = IF ctl.stage = 1 THEN ctl.h ELSE ctl.hf1,
                               !.hf3 = IF ctl.stage = 2 THEN ctl.h ELSE 0]
       ELSE LET h2 == IF ctl.h < 0 THEN -ctl.h ELSE ctl.h \div 2 IN
            ctl' = [ctl EXCEPT !.hf1 = ctl.h, !.stage = 2, !.ntry = 0, !.h = h2, !.pc = IF h2 = 0 THEN "endvar" ELSE "try"]
DTryRej ==
  /\ Pc("try") /\ ~InBox(ctl.cur, req[ctl.cur] + ctl.h)
  /\ UNCHANGED <<sv, dpt, dst, xdone>>
  /\ LET h2 == IF ctl.h < 0 THEN -ctl.h ELSE -(ctl.h \div 2) IN
     IF ctl.ntry + 1 = 10 \/ h2 = 0
       THEN ctl' = [ctl EXCEPT !.pc = "endvar",                      \* no possibility to compute derivatives
                               !.last = IF Bug = "chainbreak" THEN ctl.cur ELSE ctl.last]
       ELSE ctl' = [ctl EXCEPT !.h = h2, !.ntry = ctl.ntry + 1]

\* five-point scheme: x-2h, x+2h, x-h, x+h; right limit hit: x-h, x-2h; left limit hit: x+h, x+2h
FiveOff(st) == LET h == Hof(ctl.cur) IN
  CASE st = 11 -> -2 * h [] st = 12 -> 2 * h [] st = 13 -> -h [] st = 14 -> h      \* central
    [] st = 21 -> -h [] st = 22 -> -2 * h                                            \* backward
    [] st = 31 -> h [] st = 32 -> 2 * h                                              \* forward
DFiveOk ==
  /\ Pc("five") /\ InBox(ctl.cur, req[ctl.cur] + FiveOff(ctl.stage))
  /\ FnMove(ProbePos(FiveOff(ctl.stage)))
  /\ ctl' = [ctl EXCEPT !.pc = "fiveeval", !.last = ctl.cur]
  /\ UNCHANGED <<dpt, dst, xdone>>
DFiveEval ==
  /\ Pc("fiveeval") /\ FnEval /\ UNCHANGED <<dpt, dst, xdone>>
  /\ LET st == ctl.stage
         a2 == ctl.acc \cup {FiveOff(st)} IN
     IF st \in {14, 22, 32} THEN ctl' = [ctl EXCEPT !.pc = "endvar", !.acc = a2]
                            ELSE ctl' = [ctl EXCEPT !.pc = "five", !.acc = a2, !.stage = st + 1]
DFiveRej ==
  /\ Pc("five") /\ ~InBox(ctl.cur, req[ctl.cur] + FiveOff(ctl.stage))
  /\ UNCHANGED <<sv, dpt, dst, xdone>>
  /\ CASE ctl.stage = 11 -> ctl' = [ctl EXCEPT !.stage = 31, !.acc = {}]
       [] ctl.stage = 12 -> ctl' = [ctl EXCEPT !.stage = 21]
       [] OTHER -> IF Bug = "escape"
                     THEN ctl' = [ctl EXCEPT !.pc = "escape"]         \* both limits hit: the raise escapes as it is
                     ELSE ctl' = [ctl EXCEPT !.pc = "endvar", !.acc = {}]

DEndVar ==
  /\ Pc("endvar") /\ UNCHANGED <<sv, xdone>>
  /\ dpt' = [dpt EXCEPT ![ctl.cur] = req]
  /\ dst' = [dst EXCEPT ![ctl.cur] = IF cfg.scheme = 5 THEN ctl.acc ELSE {ctl.hf1, ctl.hf3} \ {0}]
  /\ ctl' = [ctl EXCEPT !.pc = "next"]

\* three-point cross derivatives: for every ordered pair the four corners
DPrePairs ==
  /\ Pc("prepairs")
  /\ FnMove(IF Bug = "lastonly" THEN fpos ELSE SetsOf(fpos, Pert))    \* start the pairs from the requested point
  /\ ctl' = [ctl EXCEPT !.pc = "pair", !.pairs = PairsOf(sel), !.pl = {}]
  /\ UNCHANGED <<dpt, dst, xdone>>
DPair ==
  /\ Pc("pair") /\ UNCHANGED <<sv, dpt, dst, xdone>>
  /\ IF ctl.pairs = <<>> THEN ctl' = [ctl EXCEPT !.pc = "en1"]
                         ELSE ctl' = [ctl EXCEPT !.pc = "corner", !.corner = 1]
CornerPos(c) == LET a == Head(ctl.pairs)[1]  b == Head(ctl.pairs)[2]
                    sa == IF c \in {1, 2} THEN -1 ELSE 1
                    sb == IF c \in {1, 4} THEN -1 ELSE 1 IN
  [v \in Vars |-> IF v = a THEN req[a] + sa * Hof(a)
                  ELSE IF v = b THEN req[b] + sb * Hof(b)
                  ELSE IF c = 1 /\ v \in ctl.pl THEN req[v] ELSE fpos[v]]
DCornerOk ==
  /\ Pc("corner") /\ InBoxAll(CornerPos(ctl.corner))
  /\ FnMove(CornerPos(ctl.corner))
  /\ ctl' = [ctl EXCEPT !.pc = "cornereval"]
  /\ UNCHANGED <<dpt, dst, xdone>>
DCornerEval ==
  /\ Pc("cornereval") /\ FnEval /\ UNCHANGED <<dpt, dst>>
  /\ IF ctl.corner < 4
       THEN ctl' = [ctl EXCEPT !.pc = "corner", !.corner = ctl.corner + 1] /\ UNCHANGED xdone
       ELSE /\ ctl' = [ctl EXCEPT !.pc = "pair", !.pairs = Tail(ctl.pairs),
                                  !.pl = {Head(ctl.pairs)[1], Head(ctl.pairs)[2]}]
            /\ xdone' = xdone \cup {Head(ctl.pairs)}
DCornerRej ==
  /\ Pc("corner") /\ ~InBoxAll(CornerPos(ctl.corner))
  /\ UNCHANGED <<sv, dpt, dst, xdone>>
  /\ ctl' = [ctl EXCEPT !.pc = IF Bug = "escape" THEN "escape" ELSE "xfail1"]
\* a corner is outside the box: the call raises, after putting everything back
DXFail1 == Pc("xfail1") /\ FnDer(1, TRUE) /\ ctl' = [ctl EXCEPT !.pc = "xfail2"] /\ UNCHANGED <<dpt, dst, xdone>>
DXFail2 == Pc("xfail2") /\ FnDer(2, TRUE) /\ ctl' = [ctl EXCEPT !.pc = "xfail3"] /\ UNCHANGED <<dpt, dst, xdone>>
DXFail3 == Pc("xfail3") /\ FnMove(SetsOf(fpos, Pert)) /\ ctl' = [ctl EXCEPT !.pc = "escape"] /\ UNCHANGED <<dpt, dst, xdone>>
DEscape == Pc("escape") /\ End("raise", wv) /\ ctl' = Idle0 /\ UNCHANGED <<dpt, dst, xdone>>

\* re-enable the wrapped function's derivatives, put the perturbed variables back, return
DEnable1 == Pc("en1") /\ FnDer(1, TRUE) /\ ctl' = [ctl EXCEPT !.pc = "en2"] /\ UNCHANGED <<dpt, dst, xdone>>
DEnable2 == Pc("en2") /\ FnDer(2, TRUE) /\ ctl' = [ctl EXCEPT !.pc = "restore"] /\ UNCHANGED <<dpt, dst, xdone>>
DRestore ==
  /\ Pc("restore")
  /\ FnMove(SetsOf(fpos, IF Bug = "lastonly" THEN {ctl.last} ELSE Pert))
  /\ ctl' = [ctl EXCEPT !.pc = "ret"]
  /\ UNCHANGED <<dpt, dst, xdone>>
DReturn ==
  /\ Pc("ret") /\ End(IF phase = "refused" THEN "raise" ELSE "ok", wv)
  /\ ctl' = Idle0 /\ UNCHANGED <<dpt, dst, xdone>>

DConfig(s, c, d) == /\ Pc("idle") /\ q = NoQuery /\ Config(s, c, d)
                    /\ dpt' = NoDpt /\ dst' = NoDst /\ xdone' = {} /\ UNCHANGED ctl
\* (design only) a query result is looked at once; keeps the state graph small
DForget == /\ Pc("idle") /\ q # NoQuery /\ q' = NoQuery
           /\ UNCHANGED <<cfg, sel, cross, d1, req, fpos, phase, wv, evpt, fden, fdpt, out, ready, dv>>

\* what the design's derivative of v refers to: base point and stencil
StencilOK(v) == LET h == Hof(v)  s == dst[v] IN
  IF Central(v)
    THEN s = (CASE cfg.scheme = 2 -> {-h} [] cfg.scheme = 3 -> {-h, h} [] cfg.scheme = 5 -> {-2 * h, -h, h, 2 * h})
    ELSE IF OneSided(v)
      THEN /\ Cardinality(s) = (IF cfg.scheme = 2 THEN 1 ELSE 2)
           /\ (\A o \in s : o > 0) \/ (\A o \in s : o < 0)
      ELSE TRUE
NumGood(v) == dpt[v] = req /\ StencilOK(v)
FnGood(k) == k <= cfg.fk => (fden[k] /\ fdpt[k] = req)          \* beyond fk the query raises: nothing returned
DQuery1(v) == Pc("idle") /\ q = NoQuery /\ Query("D1", v, 0, IF v \in Selected THEN NumGood(v) ELSE FnGood(1)) /\ UNCHANGED dv
DQuery2(v) == Pc("idle") /\ q = NoQuery /\ Query("D2", v, 0, IF cfg.scheme = 2 THEN TRUE
                                               ELSE IF v \in Selected THEN NumGood(v) ELSE FnGood(2)) /\ UNCHANGED dv
DQueryX(v, w) == Pc("idle") /\ q = NoQuery /\ Query("X", v, w,
                   IF cfg.scheme = 2 THEN TRUE
                   ELSE IF CrossOn /\ v \in Selected /\ w \in Selected
                     THEN (IF v = w THEN NumGood(v) ELSE <<v, w>> \in xdone)
                     ELSE FnGood(2)) /\ UNCHANGED dv

Asgs == {a \in UNION {[S -> Pts] : S \in SUBSET (1..NV)} : DOMAIN a # {}}

DNext_ ==
  \/ \E e \in {"set", "setall", "setone", "match", "f"}, a \in Asgs : DBegin(e, a)
  \/ DForward \/ DDisable1 \/ DDisable2 \/ DSet2 \/ DBase
  \/ DPlain1 \/ DPlain2 \/ DPlain3 \/ DPlain4
  \/ DNext \/ DTryOk \/ DTryEval \/ DTryRej \/ DFiveOk \/ DFiveEval \/ DFiveRej \/ DEndVar
  \/ DPrePairs \/ DPair \/ DCornerOk \/ DCornerEval \/ DCornerRej
  \/ DXFail1 \/ DXFail2 \/ DXFail3 \/ DEscape
  \/ DEnable1 \/ DEnable2 \/ DRestore \/ DReturn
  \/ \E s \in AllSels, c \in BOOLEAN, d \in D1s : DConfig(s, c, d)
  \/ DForget
  \/ \E v \in 1..NV : DQuery1(v) \/ DQuery2(v)
  \/ \E v \in 1..NV, w \in 1..NV : DQueryX(v, w)

Spec == DInit /\ [][DNext_]_vars
=============================================================================
