---- MODULE NumDerivMC_TTrace_1790491922 ----
EXTENDS Sequences, TLCExt, Toolbox, Naturals, TLC, NumDerivMC

_expression ==
    LET NumDerivMC_TEExpression == INSTANCE NumDerivMC_TEExpression
    IN NumDerivMC_TEExpression!expression
----

_trace ==
    LET NumDerivMC_TETrace == INSTANCE NumDerivMC_TETrace
    IN NumDerivMC_TETrace!trace
----

_inv ==
    ~(
        TLCGet("level") = Len(_TETrace)
        /\
        phase = ("active")
        /\
        dst = (<<{-2}, {}, {}>>)
        /\
        cfg = ([nv |-> 3, li |-> <<TRUE, TRUE, TRUE>>, lo |-> <<0, 0, 6>>, ui |-> <<TRUE, TRUE, TRUE>>, hi |-> <<12, 12, 6>>, scheme |-> 2, hm |-> 0, c |-> 0, up |-> 1, fk |-> 2])
        /\
        fden = (<<FALSE, FALSE>>)
        /\
        cross = (FALSE)
        /\
        dpt = (<<<<6, 6, 6>>, <<>>, <<6, 6, 6>>>>)
        /\
        fdpt = (<<<<6, 6, 6>>, <<6, 6, 6>>>>)
        /\
        d1 = (TRUE)
        /\
        out = ("")
        /\
        xdone = ({})
        /\
        q = ([v |-> 0, k |-> "", w |-> 0, good |-> TRUE])
        /\
        ready = ("no")
        /\
        ctl = ([h |-> -2, pc |-> "endvar", upd |-> {2}, todo |-> <<>>, cur |-> 2, last |-> 2, ntry |-> 0, stage |-> 1, hf1 |-> -2, hf3 |-> 0, acc |-> {}, pairs |-> <<>>, corner |-> 0, pl |-> {}])
        /\
        evpt = (<<4, 4, 6>>)
        /\
        sel = (<<1, 3, 2>>)
        /\
        fpos = (<<4, 4, 6>>)
        /\
        req = (<<6, 6, 6>>)
        /\
        wv = (<<6, 6, 6>>)
    )
----

_init ==
    /\ phase = _TETrace[1].phase
    /\ sel = _TETrace[1].sel
    /\ ready = _TETrace[1].ready
    /\ ctl = _TETrace[1].ctl
    /\ fdpt = _TETrace[1].fdpt
    /\ fpos = _TETrace[1].fpos
    /\ d1 = _TETrace[1].d1
    /\ fden = _TETrace[1].fden
    /\ dpt = _TETrace[1].dpt
    /\ out = _TETrace[1].out
    /\ q = _TETrace[1].q
    /\ cross = _TETrace[1].cross
    /\ req = _TETrace[1].req
    /\ dst = _TETrace[1].dst
    /\ evpt = _TETrace[1].evpt
    /\ xdone = _TETrace[1].xdone
    /\ cfg = _TETrace[1].cfg
    /\ wv = _TETrace[1].wv
----

_next ==
    /\ \E i,j \in DOMAIN _TETrace:
        /\ \/ /\ j = i + 1
              /\ i = TLCGet("level")
        /\ phase  = _TETrace[i].phase
        /\ phase' = _TETrace[j].phase
        /\ sel  = _TETrace[i].sel
        /\ sel' = _TETrace[j].sel
        /\ ready  = _TETrace[i].ready
        /\ ready' = _TETrace[j].ready
        /\ ctl  = _TETrace[i].ctl
        /\ ctl' = _TETrace[j].ctl
        /\ fdpt  = _TETrace[i].fdpt
        /\ fdpt' = _TETrace[j].fdpt
        /\ fpos  = _TETrace[i].fpos
        /\ fpos' = _TETrace[j].fpos
        /\ d1  = _TETrace[i].d1
        /\ d1' = _TETrace[j].d1
        /\ fden  = _TETrace[i].fden
        /\ fden' = _TETrace[j].fden
        /\ dpt  = _TETrace[i].dpt
        /\ dpt' = _TETrace[j].dpt
        /\ out  = _TETrace[i].out
        /\ out' = _TETrace[j].out
        /\ q  = _TETrace[i].q
        /\ q' = _TETrace[j].q
        /\ cross  = _TETrace[i].cross
        /\ cross' = _TETrace[j].cross
        /\ req  = _TETrace[i].req
        /\ req' = _TETrace[j].req
        /\ dst  = _TETrace[i].dst
        /\ dst' = _TETrace[j].dst
        /\ evpt  = _TETrace[i].evpt
        /\ evpt' = _TETrace[j].evpt
        /\ xdone  = _TETrace[i].xdone
        /\ xdone' = _TETrace[j].xdone
        /\ cfg  = _TETrace[i].cfg
        /\ cfg' = _TETrace[j].cfg
        /\ wv  = _TETrace[i].wv
        /\ wv' = _TETrace[j].wv

\* Uncomment the ASSUME below to write the states of the error trace
\* to the given file in Json format. Note that you can pass any tuple
\* to `JsonSerialize`. For example, a sub-sequence of _TETrace.
    \* ASSUME
    \*     LET J == INSTANCE Json
    \*         IN J!JsonSerialize("NumDerivMC_TTrace_1790491922.json", _TETrace)

=============================================================================

 Note that you can extract this module `NumDerivMC_TEExpression`
  to a dedicated file to reuse `expression` (the module in the 
  dedicated `NumDerivMC_TEExpression.tla` file takes precedence 
  over the module `NumDerivMC_TEExpression` below).

---- MODULE NumDerivMC_TEExpression ----
EXTENDS Sequences, TLCExt, Toolbox, Naturals, TLC, NumDerivMC

expression == 
    [
        \* To hide variables of the `NumDerivMC` spec from the error trace,
        \* remove the variables below.  The trace will be written in the order
        \* of the fields of this record.
        phase |-> phase
        ,sel |-> sel
        ,ready |-> ready
        ,ctl |-> ctl
        ,fdpt |-> fdpt
        ,fpos |-> fpos
        ,d1 |-> d1
        ,fden |-> fden
        ,dpt |-> dpt
        ,out |-> out
        ,q |-> q
        ,cross |-> cross
        ,req |-> req
        ,dst |-> dst
        ,evpt |-> evpt
        ,xdone |-> xdone
        ,cfg |-> cfg
        ,wv |-> wv
        
        \* Put additional constant-, state-, and action-level expressions here:
        \* ,_stateNumber |-> _TEPosition
        \* ,_phaseUnchanged |-> phase = phase'
        
        \* Format the `phase` variable as Json value.
        \* ,_phaseJson |->
        \*     LET J == INSTANCE Json
        \*     IN J!ToJson(phase)
        
        \* Lastly, you may build expressions over arbitrary sets of states by
        \* leveraging the _TETrace operator.  For example, this is how to
        \* count the number of times a spec variable changed up to the current
        \* state in the trace.
        \* ,_phaseModCount |->
        \*     LET F[s \in DOMAIN _TETrace] ==
        \*         IF s = 1 THEN 0
        \*         ELSE IF _TETrace[s].phase # _TETrace[s-1].phase
        \*             THEN 1 + F[s-1] ELSE F[s-1]
        \*     IN F[_TEPosition - 1]
    ]

=============================================================================



Parsing and semantic processing can take forever if the trace below is long.
 In this case, it is advised to uncomment the module below to deserialize the
 trace from a generated binary file.

\*
\*---- MODULE NumDerivMC_TETrace ----
\*EXTENDS IOUtils, TLC, NumDerivMC
\*
\*trace == IODeserialize("NumDerivMC_TTrace_1790491922.bin", TRUE)
\*
\*=============================================================================
\*

---- MODULE NumDerivMC_TETrace ----
EXTENDS TLC, NumDerivMC

trace == 
    <<
    ([phase |-> "idle",dst |-> <<{}, {}, {}>>,cfg |-> [nv |-> 3, li |-> <<TRUE, TRUE, TRUE>>, lo |-> <<0, 0, 6>>, ui |-> <<TRUE, TRUE, TRUE>>, hi |-> <<12, 12, 6>>, scheme |-> 2, hm |-> 0, c |-> 0, up |-> 1, fk |-> 2],fden |-> <<TRUE, TRUE>>,cross |-> FALSE,dpt |-> <<<<>>, <<>>, <<>>>>,fdpt |-> <<<<6, 6, 6>>, <<6, 6, 6>>>>,d1 |-> TRUE,out |-> "",xdone |-> {},q |-> [v |-> 0, k |-> "", w |-> 0, good |-> TRUE],ready |-> "no",ctl |-> [h |-> 0, pc |-> "idle", upd |-> {}, todo |-> <<>>, cur |-> 0, last |-> 0, ntry |-> 0, stage |-> 0, hf1 |-> 0, hf3 |-> 0, acc |-> {}, pairs |-> <<>>, corner |-> 0, pl |-> {}],evpt |-> <<>>,sel |-> <<>>,fpos |-> <<6, 6, 6>>,req |-> <<6, 6, 6>>,wv |-> <<6, 6, 6>>]),
    ([phase |-> "idle",dst |-> <<{}, {}, {}>>,cfg |-> [nv |-> 3, li |-> <<TRUE, TRUE, TRUE>>, lo |-> <<0, 0, 6>>, ui |-> <<TRUE, TRUE, TRUE>>, hi |-> <<12, 12, 6>>, scheme |-> 2, hm |-> 0, c |-> 0, up |-> 1, fk |-> 2],fden |-> <<TRUE, TRUE>>,cross |-> FALSE,dpt |-> <<<<>>, <<>>, <<>>>>,fdpt |-> <<<<6, 6, 6>>, <<6, 6, 6>>>>,d1 |-> TRUE,out |-> "",xdone |-> {},q |-> [v |-> 0, k |-> "", w |-> 0, good |-> TRUE],ready |-> "no",ctl |-> [h |-> 0, pc |-> "idle", upd |-> {}, todo |-> <<>>, cur |-> 0, last |-> 0, ntry |-> 0, stage |-> 0, hf1 |-> 0, hf3 |-> 0, acc |-> {}, pairs |-> <<>>, corner |-> 0, pl |-> {}],evpt |-> <<>>,sel |-> <<1, 3, 2>>,fpos |-> <<6, 6, 6>>,req |-> <<6, 6, 6>>,wv |-> <<6, 6, 6>>]),
    ([phase |-> "active",dst |-> <<{}, {}, {}>>,cfg |-> [nv |-> 3, li |-> <<TRUE, TRUE, TRUE>>, lo |-> <<0, 0, 6>>, ui |-> <<TRUE, TRUE, TRUE>>, hi |-> <<12, 12, 6>>, scheme |-> 2, hm |-> 0, c |-> 0, up |-> 1, fk |-> 2],fden |-> <<TRUE, TRUE>>,cross |-> FALSE,dpt |-> <<<<>>, <<>>, <<>>>>,fdpt |-> <<<<6, 6, 6>>, <<6, 6, 6>>>>,d1 |-> TRUE,out |-> "",xdone |-> {},q |-> [v |-> 0, k |-> "", w |-> 0, good |-> TRUE],ready |-> "no",ctl |-> [h |-> 0, pc |-> "fwd", upd |-> {2}, todo |-> <<>>, cur |-> 0, last |-> 0, ntry |-> 0, stage |-> 0, hf1 |-> 0, hf3 |-> 0, acc |-> {}, pairs |-> <<>>, corner |-> 0, pl |-> {}],evpt |-> <<>>,sel |-> <<1, 3, 2>>,fpos |-> <<6, 6, 6>>,req |-> <<6, 6, 6>>,wv |-> <<>>]),
    ([phase |-> "active",dst |-> <<{}, {}, {}>>,cfg |-> [nv |-> 3, li |-> <<TRUE, TRUE, TRUE>>, lo |-> <<0, 0, 6>>, ui |-> <<TRUE, TRUE, TRUE>>, hi |-> <<12, 12, 6>>, scheme |-> 2, hm |-> 0, c |-> 0, up |-> 1, fk |-> 2],fden |-> <<TRUE, TRUE>>,cross |-> FALSE,dpt |-> <<<<>>, <<>>, <<>>>>,fdpt |-> <<<<6, 6, 6>>, <<6, 6, 6>>>>,d1 |-> TRUE,out |-> "",xdone |-> {},q |-> [v |-> 0, k |-> "", w |-> 0, good |-> TRUE],ready |-> "no",ctl |-> [h |-> 0, pc |-> "dis1", upd |-> {2}, todo |-> <<>>, cur |-> 0, last |-> 0, ntry |-> 0, stage |-> 0, hf1 |-> 0, hf3 |-> 0, acc |-> {}, pairs |-> <<>>, corner |-> 0, pl |-> {}],evpt |-> <<>>,sel |-> <<1, 3, 2>>,fpos |-> <<6, 6, 6>>,req |-> <<6, 6, 6>>,wv |-> <<>>]),
    ([phase |-> "active",dst |-> <<{}, {}, {}>>,cfg |-> [nv |-> 3, li |-> <<TRUE, TRUE, TRUE>>, lo |-> <<0, 0, 6>>, ui |-> <<TRUE, TRUE, TRUE>>, hi |-> <<12, 12, 6>>, scheme |-> 2, hm |-> 0, c |-> 0, up |-> 1, fk |-> 2],fden |-> <<FALSE, TRUE>>,cross |-> FALSE,dpt |-> <<<<>>, <<>>, <<>>>>,fdpt |-> <<<<6, 6, 6>>, <<6, 6, 6>>>>,d1 |-> TRUE,out |-> "",xdone |-> {},q |-> [v |-> 0, k |-> "", w |-> 0, good |-> TRUE],ready |-> "no",ctl |-> [h |-> 0, pc |-> "dis2", upd |-> {2}, todo |-> <<>>, cur |-> 0, last |-> 0, ntry |-> 0, stage |-> 0, hf1 |-> 0, hf3 |-> 0, acc |-> {}, pairs |-> <<>>, corner |-> 0, pl |-> {}],evpt |-> <<>>,sel |-> <<1, 3, 2>>,fpos |-> <<6, 6, 6>>,req |-> <<6, 6, 6>>,wv |-> <<>>]),
    ([phase |-> "active",dst |-> <<{}, {}, {}>>,cfg |-> [nv |-> 3, li |-> <<TRUE, TRUE, TRUE>>, lo |-> <<0, 0, 6>>, ui |-> <<TRUE, TRUE, TRUE>>, hi |-> <<12, 12, 6>>, scheme |-> 2, hm |-> 0, c |-> 0, up |-> 1, fk |-> 2],fden |-> <<FALSE, FALSE>>,cross |-> FALSE,dpt |-> <<<<>>, <<>>, <<>>>>,fdpt |-> <<<<6, 6, 6>>, <<6, 6, 6>>>>,d1 |-> TRUE,out |-> "",xdone |-> {},q |-> [v |-> 0, k |-> "", w |-> 0, good |-> TRUE],ready |-> "no",ctl |-> [h |-> 0, pc |-> "set2", upd |-> {2}, todo |-> <<>>, cur |-> 0, last |-> 0, ntry |-> 0, stage |-> 0, hf1 |-> 0, hf3 |-> 0, acc |-> {}, pairs |-> <<>>, corner |-> 0, pl |-> {}],evpt |-> <<>>,sel |-> <<1, 3, 2>>,fpos |-> <<6, 6, 6>>,req |-> <<6, 6, 6>>,wv |-> <<>>]),
    ([phase |-> "active",dst |-> <<{}, {}, {}>>,cfg |-> [nv |-> 3, li |-> <<TRUE, TRUE, TRUE>>, lo |-> <<0, 0, 6>>, ui |-> <<TRUE, TRUE, TRUE>>, hi |-> <<12, 12, 6>>, scheme |-> 2, hm |-> 0, c |-> 0, up |-> 1, fk |-> 2],fden |-> <<FALSE, FALSE>>,cross |-> FALSE,dpt |-> <<<<>>, <<>>, <<>>>>,fdpt |-> <<<<6, 6, 6>>, <<6, 6, 6>>>>,d1 |-> TRUE,out |-> "",xdone |-> {},q |-> [v |-> 0, k |-> "", w |-> 0, good |-> TRUE],ready |-> "no",ctl |-> [h |-> 0, pc |-> "base", upd |-> {2}, todo |-> <<>>, cur |-> 0, last |-> 0, ntry |-> 0, stage |-> 0, hf1 |-> 0, hf3 |-> 0, acc |-> {}, pairs |-> <<>>, corner |-> 0, pl |-> {}],evpt |-> <<>>,sel |-> <<1, 3, 2>>,fpos |-> <<6, 6, 6>>,req |-> <<6, 6, 6>>,wv |-> <<>>]),
    ([phase |-> "active",dst |-> <<{}, {}, {}>>,cfg |-> [nv |-> 3, li |-> <<TRUE, TRUE, TRUE>>, lo |-> <<0, 0, 6>>, ui |-> <<TRUE, TRUE, TRUE>>, hi |-> <<12, 12, 6>>, scheme |-> 2, hm |-> 0, c |-> 0, up |-> 1, fk |-> 2],fden |-> <<FALSE, FALSE>>,cross |-> FALSE,dpt |-> <<<<>>, <<>>, <<>>>>,fdpt |-> <<<<6, 6, 6>>, <<6, 6, 6>>>>,d1 |-> TRUE,out |-> "",xdone |-> {},q |-> [v |-> 0, k |-> "", w |-> 0, good |-> TRUE],ready |-> "no",ctl |-> [h |-> 0, pc |-> "next", upd |-> {2}, todo |-> <<1, 3, 2>>, cur |-> 0, last |-> 0, ntry |-> 0, stage |-> 0, hf1 |-> 0, hf3 |-> 0, acc |-> {}, pairs |-> <<>>, corner |-> 0, pl |-> {}],evpt |-> <<6, 6, 6>>,sel |-> <<1, 3, 2>>,fpos |-> <<6, 6, 6>>,req |-> <<6, 6, 6>>,wv |-> <<6, 6, 6>>]),
    ([phase |-> "active",dst |-> <<{}, {}, {}>>,cfg |-> [nv |-> 3, li |-> <<TRUE, TRUE, TRUE>>, lo |-> <<0, 0, 6>>, ui |-> <<TRUE, TRUE, TRUE>>, hi |-> <<12, 12, 6>>, scheme |-> 2, hm |-> 0, c |-> 0, up |-> 1, fk |-> 2],fden |-> <<FALSE, FALSE>>,cross |-> FALSE,dpt |-> <<<<>>, <<>>, <<>>>>,fdpt |-> <<<<6, 6, 6>>, <<6, 6, 6>>>>,d1 |-> TRUE,out |-> "",xdone |-> {},q |-> [v |-> 0, k |-> "", w |-> 0, good |-> TRUE],ready |-> "no",ctl |-> [h |-> -2, pc |-> "try", upd |-> {2}, todo |-> <<3, 2>>, cur |-> 1, last |-> 0, ntry |-> 0, stage |-> 1, hf1 |-> 0, hf3 |-> 0, acc |-> {}, pairs |-> <<>>, corner |-> 0, pl |-> {}],evpt |-> <<6, 6, 6>>,sel |-> <<1, 3, 2>>,fpos |-> <<6, 6, 6>>,req |-> <<6, 6, 6>>,wv |-> <<6, 6, 6>>]),
    ([phase |-> "active",dst |-> <<{}, {}, {}>>,cfg |-> [nv |-> 3, li |-> <<TRUE, TRUE, TRUE>>, lo |-> <<0, 0, 6>>, ui |-> <<TRUE, TRUE, TRUE>>, hi |-> <<12, 12, 6>>, scheme |-> 2, hm |-> 0, c |-> 0, up |-> 1, fk |-> 2],fden |-> <<FALSE, FALSE>>,cross |-> FALSE,dpt |-> <<<<>>, <<>>, <<>>>>,fdpt |-> <<<<6, 6, 6>>, <<6, 6, 6>>>>,d1 |-> TRUE,out |-> "",xdone |-> {},q |-> [v |-> 0, k |-> "", w |-> 0, good |-> TRUE],ready |-> "no",ctl |-> [h |-> -2, pc |-> "tryeval", upd |-> {2}, todo |-> <<3, 2>>, cur |-> 1, last |-> 1, ntry |-> 0, stage |-> 1, hf1 |-> 0, hf3 |-> 0, acc |-> {}, pairs |-> <<>>, corner |-> 0, pl |-> {}],evpt |-> <<6, 6, 6>>,sel |-> <<1, 3, 2>>,fpos |-> <<4, 6, 6>>,req |-> <<6, 6, 6>>,wv |-> <<6, 6, 6>>]),
    ([phase |-> "active",dst |-> <<{}, {}, {}>>,cfg |-> [nv |-> 3, li |-> <<TRUE, TRUE, TRUE>>, lo |-> <<0, 0, 6>>, ui |-> <<TRUE, TRUE, TRUE>>, hi |-> <<12, 12, 6>>, scheme |-> 2, hm |-> 0, c |-> 0, up |-> 1, fk |-> 2],fden |-> <<FALSE, FALSE>>,cross |-> FALSE,dpt |-> <<<<>>, <<>>, <<>>>>,fdpt |-> <<<<6, 6, 6>>, <<6, 6, 6>>>>,d1 |-> TRUE,out |-> "",xdone |-> {},q |-> [v |-> 0, k |-> "", w |-> 0, good |-> TRUE],ready |-> "no",ctl |-> [h |-> -2, pc |-> "endvar", upd |-> {2}, todo |-> <<3, 2>>, cur |-> 1, last |-> 1, ntry |-> 0, stage |-> 1, hf1 |-> -2, hf3 |-> 0, acc |-> {}, pairs |-> <<>>, corner |-> 0, pl |-> {}],evpt |-> <<4, 6, 6>>,sel |-> <<1, 3, 2>>,fpos |-> <<4, 6, 6>>,req |-> <<6, 6, 6>>,wv |-> <<6, 6, 6>>]),
    ([phase |-> "active",dst |-> <<{-2}, {}, {}>>,cfg |-> [nv |-> 3, li |-> <<TRUE, TRUE, TRUE>>, lo |-> <<0, 0, 6>>, ui |-> <<TRUE, TRUE, TRUE>>, hi |-> <<12, 12, 6>>, scheme |-> 2, hm |-> 0, c |-> 0, up |-> 1, fk |-> 2],fden |-> <<FALSE, FALSE>>,cross |-> FALSE,dpt |-> <<<<6, 6, 6>>, <<>>, <<>>>>,fdpt |-> <<<<6, 6, 6>>, <<6, 6, 6>>>>,d1 |-> TRUE,out |-> "",xdone |-> {},q |-> [v |-> 0, k |-> "", w |-> 0, good |-> TRUE],ready |-> "no",ctl |-> [h |-> -2, pc |-> "next", upd |-> {2}, todo |-> <<3, 2>>, cur |-> 1, last |-> 1, ntry |-> 0, stage |-> 1, hf1 |-> -2, hf3 |-> 0, acc |-> {}, pairs |-> <<>>, corner |-> 0, pl |-> {}],evpt |-> <<4, 6, 6>>,sel |-> <<1, 3, 2>>,fpos |-> <<4, 6, 6>>,req |-> <<6, 6, 6>>,wv |-> <<6, 6, 6>>]),
    ([phase |-> "active",dst |-> <<{-2}, {}, {}>>,cfg |-> [nv |-> 3, li |-> <<TRUE, TRUE, TRUE>>, lo |-> <<0, 0, 6>>, ui |-> <<TRUE, TRUE, TRUE>>, hi |-> <<12, 12, 6>>, scheme |-> 2, hm |-> 0, c |-> 0, up |-> 1, fk |-> 2],fden |-> <<FALSE, FALSE>>,cross |-> FALSE,dpt |-> <<<<6, 6, 6>>, <<>>, <<>>>>,fdpt |-> <<<<6, 6, 6>>, <<6, 6, 6>>>>,d1 |-> TRUE,out |-> "",xdone |-> {},q |-> [v |-> 0, k |-> "", w |-> 0, good |-> TRUE],ready |-> "no",ctl |-> [h |-> -2, pc |-> "try", upd |-> {2}, todo |-> <<2>>, cur |-> 3, last |-> 1, ntry |-> 0, stage |-> 1, hf1 |-> 0, hf3 |-> 0, acc |-> {}, pairs |-> <<>>, corner |-> 0, pl |-> {}],evpt |-> <<4, 6, 6>>,sel |-> <<1, 3, 2>>,fpos |-> <<4, 6, 6>>,req |-> <<6, 6, 6>>,wv |-> <<6, 6, 6>>]),
    ([phase |-> "active",dst |-> <<{-2}, {}, {}>>,cfg |-> [nv |-> 3, li |-> <<TRUE, TRUE, TRUE>>, lo |-> <<0, 0, 6>>, ui |-> <<TRUE, TRUE, TRUE>>, hi |-> <<12, 12, 6>>, scheme |-> 2, hm |-> 0, c |-> 0, up |-> 1, fk |-> 2],fden |-> <<FALSE, FALSE>>,cross |-> FALSE,dpt |-> <<<<6, 6, 6>>, <<>>, <<>>>>,fdpt |-> <<<<6, 6, 6>>, <<6, 6, 6>>>>,d1 |-> TRUE,out |-> "",xdone |-> {},q |-> [v |-> 0, k |-> "", w |-> 0, good |-> TRUE],ready |-> "no",ctl |-> [h |-> 2, pc |-> "try", upd |-> {2}, todo |-> <<2>>, cur |-> 3, last |-> 1, ntry |-> 1, stage |-> 1, hf1 |-> 0, hf3 |-> 0, acc |-> {}, pairs |-> <<>>, corner |-> 0, pl |-> {}],evpt |-> <<4, 6, 6>>,sel |-> <<1, 3, 2>>,fpos |-> <<4, 6, 6>>,req |-> <<6, 6, 6>>,wv |-> <<6, 6, 6>>]),
    ([phase |-> "active",dst |-> <<{-2}, {}, {}>>,cfg |-> [nv |-> 3, li |-> <<TRUE, TRUE, TRUE>>, lo |-> <<0, 0, 6>>, ui |-> <<TRUE, TRUE, TRUE>>, hi |-> <<12, 12, 6>>, scheme |-> 2, hm |-> 0, c |-> 0, up |-> 1, fk |-> 2],fden |-> <<FALSE, FALSE>>,cross |-> FALSE,dpt |-> <<<<6, 6, 6>>, <<>>, <<>>>>,fdpt |-> <<<<6, 6, 6>>, <<6, 6, 6>>>>,d1 |-> TRUE,out |-> "",xdone |-> {},q |-> [v |-> 0, k |-> "", w |-> 0, good |-> TRUE],ready |-> "no",ctl |-> [h |-> -1, pc |-> "try", upd |-> {2}, todo |-> <<2>>, cur |-> 3, last |-> 1, ntry |-> 2, stage |-> 1, hf1 |-> 0, hf3 |-> 0, acc |-> {}, pairs |-> <<>>, corner |-> 0, pl |-> {}],evpt |-> <<4, 6, 6>>,sel |-> <<1, 3, 2>>,fpos |-> <<4, 6, 6>>,req |-> <<6, 6, 6>>,wv |-> <<6, 6, 6>>]),
    ([phase |-> "active",dst |-> <<{-2}, {}, {}>>,cfg |-> [nv |-> 3, li |-> <<TRUE, TRUE, TRUE>>, lo |-> <<0, 0, 6>>, ui |-> <<TRUE, TRUE, TRUE>>, hi |-> <<12, 12, 6>>, scheme |-> 2, hm |-> 0, c |-> 0, up |-> 1, fk |-> 2],fden |-> <<FALSE, FALSE>>,cross |-> FALSE,dpt |-> <<<<6, 6, 6>>, <<>>, <<>>>>,fdpt |-> <<<<6, 6, 6>>, <<6, 6, 6>>>>,d1 |-> TRUE,out |-> "",xdone |-> {},q |-> [v |-> 0, k |-> "", w |-> 0, good |-> TRUE],ready |-> "no",ctl |-> [h |-> 1, pc |-> "try", upd |-> {2}, todo |-> <<2>>, cur |-> 3, last |-> 1, ntry |-> 3, stage |-> 1, hf1 |-> 0, hf3 |-> 0, acc |-> {}, pairs |-> <<>>, corner |-> 0, pl |-> {}],evpt |-> <<4, 6, 6>>,sel |-> <<1, 3, 2>>,fpos |-> <<4, 6, 6>>,req |-> <<6, 6, 6>>,wv |-> <<6, 6, 6>>]),
    ([phase |-> "active",dst |-> <<{-2}, {}, {}>>,cfg |-> [nv |-> 3, li |-> <<TRUE, TRUE, TRUE>>, lo |-> <<0, 0, 6>>, ui |-> <<TRUE, TRUE, TRUE>>, hi |-> <<12, 12, 6>>, scheme |-> 2, hm |-> 0, c |-> 0, up |-> 1, fk |-> 2],fden |-> <<FALSE, FALSE>>,cross |-> FALSE,dpt |-> <<<<6, 6, 6>>, <<>>, <<>>>>,fdpt |-> <<<<6, 6, 6>>, <<6, 6, 6>>>>,d1 |-> TRUE,out |-> "",xdone |-> {},q |-> [v |-> 0, k |-> "", w |-> 0, good |-> TRUE],ready |-> "no",ctl |-> [h |-> 1, pc |-> "endvar", upd |-> {2}, todo |-> <<2>>, cur |-> 3, last |-> 3, ntry |-> 3, stage |-> 1, hf1 |-> 0, hf3 |-> 0, acc |-> {}, pairs |-> <<>>, corner |-> 0, pl |-> {}],evpt |-> <<4, 6, 6>>,sel |-> <<1, 3, 2>>,fpos |-> <<4, 6, 6>>,req |-> <<6, 6, 6>>,wv |-> <<6, 6, 6>>]),
    ([phase |-> "active",dst |-> <<{-2}, {}, {}>>,cfg |-> [nv |-> 3, li |-> <<TRUE, TRUE, TRUE>>, lo |-> <<0, 0, 6>>, ui |-> <<TRUE, TRUE, TRUE>>, hi |-> <<12, 12, 6>>, scheme |-> 2, hm |-> 0, c |-> 0, up |-> 1, fk |-> 2],fden |-> <<FALSE, FALSE>>,cross |-> FALSE,dpt |-> <<<<6, 6, 6>>, <<>>, <<6, 6, 6>>>>,fdpt |-> <<<<6, 6, 6>>, <<6, 6, 6>>>>,d1 |-> TRUE,out |-> "",xdone |-> {},q |-> [v |-> 0, k |-> "", w |-> 0, good |-> TRUE],ready |-> "no",ctl |-> [h |-> 1, pc |-> "next", upd |-> {2}, todo |-> <<2>>, cur |-> 3, last |-> 3, ntry |-> 3, stage |-> 1, hf1 |-> 0, hf3 |-> 0, acc |-> {}, pairs |-> <<>>, corner |-> 0, pl |-> {}],evpt |-> <<4, 6, 6>>,sel |-> <<1, 3, 2>>,fpos |-> <<4, 6, 6>>,req |-> <<6, 6, 6>>,wv |-> <<6, 6, 6>>]),
    ([phase |-> "active",dst |-> <<{-2}, {}, {}>>,cfg |-> [nv |-> 3, li |-> <<TRUE, TRUE, TRUE>>, lo |-> <<0, 0, 6>>, ui |-> <<TRUE, TRUE, TRUE>>, hi |-> <<12, 12, 6>>, scheme |-> 2, hm |-> 0, c |-> 0, up |-> 1, fk |-> 2],fden |-> <<FALSE, FALSE>>,cross |-> FALSE,dpt |-> <<<<6, 6, 6>>, <<>>, <<6, 6, 6>>>>,fdpt |-> <<<<6, 6, 6>>, <<6, 6, 6>>>>,d1 |-> TRUE,out |-> "",xdone |-> {},q |-> [v |-> 0, k |-> "", w |-> 0, good |-> TRUE],ready |-> "no",ctl |-> [h |-> -2, pc |-> "try", upd |-> {2}, todo |-> <<>>, cur |-> 2, last |-> 3, ntry |-> 0, stage |-> 1, hf1 |-> 0, hf3 |-> 0, acc |-> {}, pairs |-> <<>>, corner |-> 0, pl |-> {}],evpt |-> <<4, 6, 6>>,sel |-> <<1, 3, 2>>,fpos |-> <<4, 6, 6>>,req |-> <<6, 6, 6>>,wv |-> <<6, 6, 6>>]),
    ([phase |-> "active",dst |-> <<{-2}, {}, {}>>,cfg |-> [nv |-> 3, li |-> <<TRUE, TRUE, TRUE>>, lo |-> <<0, 0, 6>>, ui |-> <<TRUE, TRUE, TRUE>>, hi |-> <<12, 12, 6>>, scheme |-> 2, hm |-> 0, c |-> 0, up |-> 1, fk |-> 2],fden |-> <<FALSE, FALSE>>,cross |-> FALSE,dpt |-> <<<<6, 6, 6>>, <<>>, <<6, 6, 6>>>>,fdpt |-> <<<<6, 6, 6>>, <<6, 6, 6>>>>,d1 |-> TRUE,out |-> "",xdone |-> {},q |-> [v |-> 0, k |-> "", w |-> 0, good |-> TRUE],ready |-> "no",ctl |-> [h |-> -2, pc |-> "tryeval", upd |-> {2}, todo |-> <<>>, cur |-> 2, last |-> 2, ntry |-> 0, stage |-> 1, hf1 |-> 0, hf3 |-> 0, acc |-> {}, pairs |-> <<>>, corner |-> 0, pl |-> {}],evpt |-> <<4, 6, 6>>,sel |-> <<1, 3, 2>>,fpos |-> <<4, 4, 6>>,req |-> <<6, 6, 6>>,wv |-> <<6, 6, 6>>]),
    ([phase |-> "active",dst |-> <<{-2}, {}, {}>>,cfg |-> [nv |-> 3, li |-> <<TRUE, TRUE, TRUE>>, lo |-> <<0, 0, 6>>, ui |-> <<TRUE, TRUE, TRUE>>, hi |-> <<12, 12, 6>>, scheme |-> 2, hm |-> 0, c |-> 0, up |-> 1, fk |-> 2],fden |-> <<FALSE, FALSE>>,cross |-> FALSE,dpt |-> <<<<6, 6, 6>>, <<>>, <<6, 6, 6>>>>,fdpt |-> <<<<6, 6, 6>>, <<6, 6, 6>>>>,d1 |-> TRUE,out |-> "",xdone |-> {},q |-> [v |-> 0, k |-> "", w |-> 0, good |-> TRUE],ready |-> "no",ctl |-> [h |-> -2, pc |-> "endvar", upd |-> {2}, todo |-> <<>>, cur |-> 2, last |-> 2, ntry |-> 0, stage |-> 1, hf1 |-> -2, hf3 |-> 0, acc |-> {}, pairs |-> <<>>, corner |-> 0, pl |-> {}],evpt |-> <<4, 4, 6>>,sel |-> <<1, 3, 2>>,fpos |-> <<4, 4, 6>>,req |-> <<6, 6, 6>>,wv |-> <<6, 6, 6>>])
    >>
----


=============================================================================

---- CONFIG NumDerivMC_TTrace_1790491922 ----
CONSTANTS
    NV = 3
    Pts = { 6 }
    Boxes <- BoxesFull
    Schemes = { 2 }
    Kinds = { 2 }
    H = 2
    D1s = { TRUE }
    Bug = "chainbreak"

INVARIANT
    _inv

CHECK_DEADLOCK
    \* CHECK_DEADLOCK off because of PROPERTY or INVARIANT above.
    FALSE

INIT
    _init

NEXT
    _next

CONSTANT
    _TETrace <- _trace

ALIAS
    _expression
=============================================================================
\* Generated on Sun Sep 27 06:52:26 UTC 2026