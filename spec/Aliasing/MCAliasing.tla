----------------------------- MODULE MCAliasing -----------------------------
\* Constant definitions for the design-model configurations (generated .cfg
\* files substitute them:  Cons <- ConsNone, ParSets <- ParAll ...).
EXTENDS Aliasing

ConsNone  == {<<>>}
ConsTwo   == {<<>>, <<1, 2, TRUE, TRUE>>, <<2, 3, TRUE, TRUE>>}
ConsTwoV2 == {<<>>, <<1, 2, TRUE, TRUE>>, <<2, 2, TRUE, TRUE>>}
ConsOpen  == {<<>>, <<1, 3, FALSE, TRUE>>, <<1, 3, TRUE, FALSE>>, <<2, 3, TRUE, TRUE>>}
ConsThree == {<<>>, <<1, 2, TRUE, TRUE>>, <<2, 3, TRUE, TRUE>>, <<1, 3, FALSE, TRUE>>}
ParAll    == {Names}
MapsNone  == {}
MapsAll   == UNION {[D -> Names] : D \in SUBSET Names}      \* every map over the names: (|Names|+1)^|Names|
ParSome   == {P \in SUBSET Names : Cardinality(P) >= 2}

\* Self-check of the property: a model whose set-by-name uses the listener
\* cascade of the code (SetAlg) instead of the definition must violate Follows.
SetByNameSC(o, a, v) ==
  /\ Quiet /\ o \in Live /\ a \in own[o].par /\ SetAcceptable(own[o], a, v)
  /\ Upd(o, SetAlg(own[o], a, v)) /\ Ret("Set", o, 0, "ok") /\ UNCHANGED bulk
NextSC == DoNew \/ DoAlias \/ (\E o \in Live, a \in Names, v \in Vals : SetByNameSC(o, a, v))
SpecSC == Init /\ [][NextSC]_vars

\* Self-check of the liveness property: the loop as it was before the repair
\* (an entry whose source is a pending key is retried without advancing) must
\* violate BulkTerminates.
BulkIterStuck(R, b) ==
  IF b.cur # 0 /\ b.rest[b.cur] \notin b.have /\ b.rest[b.cur] \in R.par THEN [R |-> R, b |-> b] ELSE BulkIter(R, b, TRUE)
BulkStepStuck ==
  /\ bulk.pc = "loop"
  /\ LET S == BulkIterStuck(own[bulk.o], bulk) IN Upd(bulk.o, S.R) /\ bulk' = S.b
  /\ UNCHANGED out
NextStuck == DoNew \/ DoBulk \/ BulkStepStuck \/ BulkReturnRaise \/ BulkReturnOk
SpecStuck == Init /\ [][NextStuck]_vars /\ WF_vars(BulkStepStuck \/ BulkReturnRaise \/ BulkReturnOk)
=============================================================================
