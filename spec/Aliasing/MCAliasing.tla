----------------------------- MODULE MCAliasing -----------------------------
\* Constant definitions for the design-model configurations (generated .cfg
\* files substitute them:  Cons <- ConsNone, ParSets <- ParAll ...).
EXTENDS Aliasing

ConsNone  == {<<>>}
ConsTwo   == {<<>>, <<1, 2>>, <<2, 3>>}
ConsTwoV2 == {<<>>, <<1, 2>>, <<2, 2>>}
ConsThree == {<<>>, <<1, 2>>, <<2, 3>>, <<1, 3>>}
ParAll    == {Names}
MapsNone  == {}
MapsAll   == UNION {[D -> Names] : D \in SUBSET Names}      \* every map over the names: (|Names|+1)^|Names|
ParSome   == {P \in SUBSET Names : Cardinality(P) >= 2}
=============================================================================
