SPECIFICATION TraceSpec
CONSTANTS
  Names = {}
  Owners = {}
  Vals = {}
  Cons = {}
  NSs = {}
  ParSets = {}
  MaxWrites = 0
  Maps = {}
INVARIANTS TypeOK CascadeComplete IndepComplement Acyclic ParamOK SharedConstraint ConWithinHad
POSTCONDITION TraceAccepted
CHECK_DEADLOCK FALSE
