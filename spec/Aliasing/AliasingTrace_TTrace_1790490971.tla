---- MODULE AliasingTrace_TTrace_1790490971 ----
EXTENDS Sequences, TLCExt, AliasingTrace, Toolbox, Naturals, TLC

_expression ==
    LET AliasingTrace_TEExpression == INSTANCE AliasingTrace_TEExpression
    IN AliasingTrace_TEExpression!expression
----

_trace ==
    LET AliasingTrace_TETrace == INSTANCE AliasingTrace_TETrace
    IN AliasingTrace_TETrace!trace
----

_inv ==
    ~(
        TLCGet("level") = Len(_TETrace)
        /\
        flag = ("ShortCircuit")
        /\
        own = (<<[ns |-> 0, par |-> {1, 2, 3}, val |-> <<2, 2, 3>>, con |-> <<<<>>, <<>>, <<>>>>, ind |-> {1}, al |-> (2 :> 1 @@ 3 :> 2), req |-> <<{}, {}, {}>>]>>)
        /\
        l = (6)
        /\
        bulk = ([o |-> 0, pc |-> "idle", m |-> <<>>, order |-> <<>>, rest |-> <<>>, cur |-> 0, have |-> {}, prev |-> 0])
        /\
        out = ([r |-> "ok", op |-> "Set", o |-> 1, t |-> 0])
    )
----

_init ==
    /\ flag = _TETrace[1].flag
    /\ l = _TETrace[1].l
    /\ out = _TETrace[1].out
    /\ bulk = _TETrace[1].bulk
    /\ own = _TETrace[1].own
----

_next ==
    /\ \E i,j \in DOMAIN _TETrace:
        /\ \/ /\ j = i + 1
              /\ i = TLCGet("level")
        /\ flag  = _TETrace[i].flag
        /\ flag' = _TETrace[j].flag
        /\ l  = _TETrace[i].l
        /\ l' = _TETrace[j].l
        /\ out  = _TETrace[i].out
        /\ out' = _TETrace[j].out
        /\ bulk  = _TETrace[i].bulk
        /\ bulk' = _TETrace[j].bulk
        /\ own  = _TETrace[i].own
        /\ own' = _TETrace[j].own

\* Uncomment the ASSUME below to write the states of the error trace
\* to the given file in Json format. Note that you can pass any tuple
\* to `JsonSerialize`. For example, a sub-sequence of _TETrace.
    \* ASSUME
    \*     LET J == INSTANCE Json
    \*         IN J!JsonSerialize("AliasingTrace_TTrace_1790490971.json", _TETrace)

=============================================================================

 Note that you can extract this module `AliasingTrace_TEExpression`
  to a dedicated file to reuse `expression` (the module in the 
  dedicated `AliasingTrace_TEExpression.tla` file takes precedence 
  over the module `AliasingTrace_TEExpression` below).

---- MODULE AliasingTrace_TEExpression ----
EXTENDS Sequences, TLCExt, AliasingTrace, Toolbox, Naturals, TLC

expression == 
    [
        \* To hide variables of the `AliasingTrace` spec from the error trace,
        \* remove the variables below.  The trace will be written in the order
        \* of the fields of this record.
        flag |-> flag
        ,l |-> l
        ,out |-> out
        ,bulk |-> bulk
        ,own |-> own
        
        \* Put additional constant-, state-, and action-level expressions here:
        \* ,_stateNumber |-> _TEPosition
        \* ,_flagUnchanged |-> flag = flag'
        
        \* Format the `flag` variable as Json value.
        \* ,_flagJson |->
        \*     LET J == INSTANCE Json
        \*     IN J!ToJson(flag)
        
        \* Lastly, you may build expressions over arbitrary sets of states by
        \* leveraging the _TETrace operator.  For example, this is how to
        \* count the number of times a spec variable changed up to the current
        \* state in the trace.
        \* ,_flagModCount |->
        \*     LET F[s \in DOMAIN _TETrace] ==
        \*         IF s = 1 THEN 0
        \*         ELSE IF _TETrace[s].flag # _TETrace[s-1].flag
        \*             THEN 1 + F[s-1] ELSE F[s-1]
        \*     IN F[_TEPosition - 1]
    ]

=============================================================================



Parsing and semantic processing can take forever if the trace below is long.
 In this case, it is advised to uncomment the module below to deserialize the
 trace from a generated binary file.

\*
\*---- MODULE AliasingTrace_TETrace ----
\*EXTENDS IOUtils, AliasingTrace, TLC
\*
\*trace == IODeserialize("AliasingTrace_TTrace_1790490971.bin", TRUE)
\*
\*=============================================================================
\*

---- MODULE AliasingTrace_TETrace ----
EXTENDS AliasingTrace, TLC

trace == 
    <<
    ([flag |-> "none",own |-> <<>>,l |-> 1,bulk |-> [o |-> 0, pc |-> "idle", m |-> <<>>, order |-> <<>>, rest |-> <<>>, cur |-> 0, have |-> {}, prev |-> 0],out |-> [r |-> "ok", op |-> "Init", o |-> 0, t |-> 0]]),
    ([flag |-> "none",own |-> <<>>,l |-> 2,bulk |-> [o |-> 0, pc |-> "idle", m |-> <<>>, order |-> <<>>, rest |-> <<>>, cur |-> 0, have |-> {}, prev |-> 0],out |-> [r |-> "ok", op |-> "Init", o |-> 0, t |-> 0]]),
    ([flag |-> "none",own |-> <<[ns |-> 0, par |-> {1, 2, 3}, val |-> <<1, 2, 3>>, con |-> <<<<>>, <<>>, <<>>>>, ind |-> {1, 2, 3}, al |-> <<>>, req |-> <<{}, {}, {}>>]>>,l |-> 3,bulk |-> [o |-> 0, pc |-> "idle", m |-> <<>>, order |-> <<>>, rest |-> <<>>, cur |-> 0, have |-> {}, prev |-> 0],out |-> [r |-> "ok", op |-> "New", o |-> 1, t |-> 0]]),
    ([flag |-> "none",own |-> <<[ns |-> 0, par |-> {1, 2, 3}, val |-> <<1, 2, 3>>, con |-> <<<<>>, <<>>, <<>>>>, ind |-> {1, 3}, al |-> (2 :> 1), req |-> <<{}, {}, {}>>]>>,l |-> 4,bulk |-> [o |-> 0, pc |-> "idle", m |-> <<>>, order |-> <<>>, rest |-> <<>>, cur |-> 0, have |-> {}, prev |-> 0],out |-> [r |-> "ok", op |-> "Alias", o |-> 1, t |-> 0]]),
    ([flag |-> "none",own |-> <<[ns |-> 0, par |-> {1, 2, 3}, val |-> <<1, 2, 3>>, con |-> <<<<>>, <<>>, <<>>>>, ind |-> {1}, al |-> (2 :> 1 @@ 3 :> 2), req |-> <<{}, {}, {}>>]>>,l |-> 5,bulk |-> [o |-> 0, pc |-> "idle", m |-> <<>>, order |-> <<>>, rest |-> <<>>, cur |-> 0, have |-> {}, prev |-> 0],out |-> [r |-> "ok", op |-> "Alias", o |-> 1, t |-> 0]]),
    ([flag |-> "ShortCircuit",own |-> <<[ns |-> 0, par |-> {1, 2, 3}, val |-> <<2, 2, 3>>, con |-> <<<<>>, <<>>, <<>>>>, ind |-> {1}, al |-> (2 :> 1 @@ 3 :> 2), req |-> <<{}, {}, {}>>]>>,l |-> 6,bulk |-> [o |-> 0, pc |-> "idle", m |-> <<>>, order |-> <<>>, rest |-> <<>>, cur |-> 0, have |-> {}, prev |-> 0],out |-> [r |-> "ok", op |-> "Set", o |-> 1, t |-> 0]])
    >>
----


=============================================================================

---- CONFIG AliasingTrace_TTrace_1790490971 ----
CONSTANTS
    Names = { }
    Owners = { }
    Vals = { }
    Cons = { }
    NSs = { }
    ParSets = { }
    MaxWrites = 0
    Maps = { }

INVARIANT
    _inv

CHECK_DEADLOCK
    \* CHECK_DEADLOCK off because of PROPERTY or INVARIANT above.
    FALSE

INIT
    _init

NEXT
    _next

CONSTANT
    _TETrace <- _trace

ALIAS
    _expression
=============================================================================
\* Generated on Sun Sep 27 06:36:12 UTC 2026