------------------------------ MODULE Aliasing ------------------------------
\* Parameter aliasing of bpp-core (src/Bpp/Numeric/AbstractParameterAliasable.{h,cpp}).
\*
\* An owner holds named parameters (value, optional interval constraint), an
\* alias relation al (b |-> a means "b is aliased to a": b follows a), the list
\* of independent parameters ind and a namespace.  One action per public call,
\* each with an explicit ok / raise outcome recorded in `out`.  The bulk form of
\* aliasParameters is modelled one loop iteration per step (pc in `bulk`) so
\* that termination is a liveness property checked under weak fairness.
\*
\* What the call should do is written *definitionally*: an update of a moves
\* every parameter that has a among its ancestors (transitive closure of al).
\* The listener cascade of the implementation (which stops at a parameter that
\* already holds the value) is transcribed next to it (SetAlg) and used by the
\* trace specification to name the one known divergence.
\*
\* Values are pool indices (the real values of a scenario are a sorted pool of
\* distinct doubles, only the order matters), constraints are intervals
\* <<lo, hi, il, iu>> of pool indices with inclusion flags, <<>> = unconstrained.
EXTENDS Integers, Sequences, FiniteSets, TLC

CONSTANTS Names,      \* parameter names: integers >= 1; the key order of a name map is the integer order
          Owners,     \* owner identifiers of the design model
          Vals,       \* value codes of the design model
          Cons,       \* constraints offered to New: subset of {<<>>} \cup intervals
          NSs,        \* namespace identifiers (0 = empty namespace)
          ParSets,    \* parameter sets offered to New (subsets of Names)
          MaxWrites,  \* bound on the length of a bulk-set / match list in the design model
          Maps        \* name maps offered to the bulk aliasParameters call in the design model

VARIABLES own,        \* own[o] : record of a live owner (DOMAIN own = live owners)
          bulk,       \* state of a running bulk aliasParameters call ("idle" otherwise)
          out         \* the last call: [op, o, t, r]   (r \in {"ok", "raise", "run"})

vars == <<own, bulk, out>>

Live == DOMAIN own
NoCon == <<>>

\* ------------------------------------------------------------------ intervals
Mn(x, y) == IF x <= y THEN x ELSE y
Mx(x, y) == IF x >= y THEN x ELSE y
Accepts(c, v) == IF c = NoCon THEN TRUE
                 ELSE (IF c[3] THEN v >= c[1] ELSE v > c[1]) /\ (IF c[4] THEN v <= c[2] ELSE v < c[2])
\* the larger lower bound, the smaller upper bound; at equal bounds the bound is
\* included only if both include it
Inter(c, d)   == <<Mx(c[1], d[1]), Mn(c[2], d[2]),
                   IF c[1] > d[1] THEN c[3] ELSE IF d[1] > c[1] THEN d[3] ELSE (c[3] /\ d[3]),
                   IF c[2] < d[2] THEN c[4] ELSE IF d[2] < c[2] THEN d[4] ELSE (c[4] /\ d[4])>>
IsEmptyI(c)   == IF c = NoCon THEN FALSE ELSE (c[1] > c[2] \/ (c[1] = c[2] /\ ~(c[3] /\ c[4])))
\* accept set (over the reals) of c is included in the accept set of d
Within(c, d)  == IF d = NoCon THEN TRUE ELSE IF c = NoCon THEN FALSE
                 ELSE \/ IsEmptyI(c)
                      \/ /\ (d[1] < c[1] \/ (d[1] = c[1] /\ (d[3] \/ ~c[3])))
                         /\ (c[2] < d[2] \/ (c[2] = d[2] /\ (d[4] \/ ~c[4])))
\* same accept set, whatever the representation
SameSet(c, d) == IF c = NoCon \/ d = NoCon THEN c = d ELSE (c = d \/ (IsEmptyI(c) /\ IsEmptyI(d)))

\* ------------------------------------------------------------------ functions
Put(f, k, v)  == [x \in DOMAIN f \cup {k} |-> IF x = k THEN v ELSE f[x]]
Remove(f, k)  == [x \in DOMAIN f \ {k} |-> f[x]]
FirstKey(f)   == IF DOMAIN f = {} THEN 0 ELSE CHOOSE k \in DOMAIN f : \A j \in DOMAIN f : k <= j
NextKey(f, k) == LET G == {j \in DOMAIN f : j > k} IN
                 IF G = {} THEN 0 ELSE CHOOSE j \in G : \A i \in G : j <= i

\* ------------------------------------------------------------------ alias relation (definitions)
Up(R, S) == S \cup {R.al[x] : x \in S \cap DOMAIN R.al}
RECURSIVE Closure(_, _, _)
Closure(R, S, n) == IF n = 0 THEN S ELSE Closure(R, Up(R, S), n - 1)
\* everything b follows, directly or through a chain
Anc(R, b) == IF b \in DOMAIN R.al THEN Closure(R, {R.al[b]}, Cardinality(R.par)) ELSE {}
Followers(R, a) == {b \in R.par : a \in Anc(R, b)}
AcyclicR(R) == \A b \in DOMAIN R.al : b \notin Anc(R, b)

\* ------------------------------------------------------------------ value updates
\* definition: an update that changes a moves a and all its followers
SetDef(R, a, v) ==
  IF R.val[a] = v THEN R
  ELSE LET F == Followers(R, a) IN [R EXCEPT !.val = [p \in R.par |-> IF p = a \/ p \in F THEN v ELSE R.val[p]]]

\* transcription of the listener cascade: Parameter::setValue returns early
\* when the value is already held, so a follower that already equals v does
\* not forward the change to its own followers
GrowSC(R, v, S) == S \cup {b \in DOMAIN R.al : R.al[b] \in S /\ R.val[b] # v}
RECURSIVE ReachSC(_, _, _, _)
ReachSC(R, v, S, n) == IF n = 0 THEN S ELSE ReachSC(R, v, GrowSC(R, v, S), n - 1)
SetAlg(R, a, v) ==
  IF R.val[a] = v THEN R
  ELSE LET S == ReachSC(R, v, {a}, Cardinality(R.par)) IN [R EXCEPT !.val = [p \in R.par |-> IF p \in S THEN v ELSE R.val[p]]]

\* v is acceptable for a write to a: every constraint on the way accepts it
SetAcceptable(R, a, v) == \A p \in {a} \cup Followers(R, a) : Accepts(R.con[p], v)

\* a list of writes ws = << <<name, value>>, ... >> applied in list order;
\* names the owner does not have are ignored (bulk set / match semantics)
RECURSIVE Writes(_, _, _)
Writes(R, ws, alg) ==
  IF ws = <<>> THEN R
  ELSE LET n == ws[1][1]  v == ws[1][2]
           R1 == IF n \notin R.par THEN R ELSE IF alg THEN SetAlg(R, n, v) ELSE SetDef(R, n, v)
       IN Writes(R1, Tail(ws), alg)
WNames(ws) == {ws[i][1] : i \in DOMAIN ws}
\* lists inside the quantifier: distinct names, no value conflict between a
\* listed parameter and a listed ancestor of it
WritesConsistent(R, ws) ==
  /\ \A i, j \in DOMAIN ws : i # j => ws[i][1] # ws[j][1]
  /\ \A i, j \in DOMAIN ws : (ws[i][1] \in R.par /\ ws[j][1] \in R.par /\ ws[i][1] \in Anc(R, ws[j][1])) => ws[i][2] = ws[j][2]
\* a listed value is rejected by the constraint of the listed parameter or of one of its followers
WritesRejected(R, ws) == \E i \in DOMAIN ws : ws[i][1] \in R.par /\ ~SetAcceptable(R, ws[i][1], ws[i][2])
WritesDiffer(R, ws) == \E i \in DOMAIN ws : ws[i][1] \in R.par /\ R.val[ws[i][1]] # ws[i][2]

\* ------------------------------------------------------------------ alias / unalias on one owner record
\* "a" is the source (p1), "b" the parameter that will follow it (p2)
AliasRefused(R, a, b) ==
  \/ a \notin R.par \/ b \notin R.par
  \/ b \notin R.ind                   \* already aliased: cannot be aliased twice
  \/ a = b \/ b \in Anc(R, a)         \* would close a cycle (any length)

\* Constraints after the link.  The constraint a and b share is the intersection
\* when both are constrained, b's when only b is.  up: the parameters a itself
\* follows hand their value down to b as well - the code restricts them too; an
\* implementation that refuses such writes instead need not (up = FALSE).
\* adopt: when only the source is constrained the statement does not say
\* whether the follower takes the constraint over.
AliasShared(R, a, b) == IF R.con[a] # NoCon /\ R.con[b] # NoCon THEN Inter(R.con[a], R.con[b]) ELSE R.con[b]
ChainUp(R, a, up) == IF up THEN Anc(R, a) ELSE {}
AliasCons(R, a, b, adopt, up) ==
  LET nc == AliasShared(R, a, b) IN
  [p \in R.par |->
     IF R.con[b] = NoCon THEN (IF p = b /\ adopt THEN R.con[a] ELSE R.con[p])
     ELSE IF p = a \/ p = b THEN nc
     ELSE IF p \in ChainUp(R, a, up) THEN (IF R.con[p] = NoCon THEN nc ELSE Inter(R.con[p], nc))
     ELSE R.con[p]]
\* a current value does not fit the constraint its parameter would get: the
\* request must be refused (a constrained parameter never holds a rejected value)
AliasConflict(R, a, b, adopt, up) ==
  LET nc == AliasCons(R, a, b, adopt, up) IN \E p \in R.par : ~Accepts(nc[p], R.val[p])
AliasRefusedC(R, a, b, adopt, up) == IF AliasRefused(R, a, b) THEN TRUE ELSE AliasConflict(R, a, b, adopt, up)

AliasEff(R, a, b, adopt, up) ==
  LET T == {a} \cup ChainUp(R, a, up) IN
  [R EXCEPT !.al  = Put(R.al, b, a),
            !.ind = R.ind \ {b},
            !.con = AliasCons(R, a, b, adopt, up),
            !.req = [p \in R.par |-> IF p \in T THEN R.req[p] \cup R.req[b] ELSE R.req[p]]]

UnaliasRefused(R, a, b) == a \notin R.par \/ b \notin R.par \/ b \notin DOMAIN R.al \/ R.al[b] # a
UnaliasEff(R, a, b) == [R EXCEPT !.al = Remove(R.al, b), !.ind = R.ind \cup {b}]

\* ------------------------------------------------------------------ bulk aliasParameters(map)
\* m[k] = s : "k is aliased to s".  Transcription of the loop: passes over the
\* remaining entries in key order; an entry whose source is itself a pending
\* key is skipped in this pass; a pass without progress raises.
Idle == [pc |-> "idle", o |-> 0, m |-> <<>>, rest |-> <<>>, cur |-> 0, have |-> {}, prev |-> 0, order |-> <<>>]

BulkBegin(R, o, m) ==
  [pc |-> "loop", o |-> o, m |-> m, rest |-> m, cur |-> FirstKey(m), have |-> R.par \ DOMAIN m,
   prev |-> Cardinality(DOMAIN m), order |-> <<>>]

BulkIter(R, b, up) ==
  IF b.cur = 0
  THEN IF DOMAIN b.rest = {} THEN [R |-> R, b |-> [b EXCEPT !.pc = "ok"]]
       ELSE IF Cardinality(DOMAIN b.rest) = b.prev THEN [R |-> R, b |-> [b EXCEPT !.pc = "raise"]]    \* cycle among the rest
       ELSE [R |-> R, b |-> [b EXCEPT !.prev = Cardinality(DOMAIN b.rest), !.cur = FirstKey(b.rest)]]
  ELSE LET k == b.cur  s == b.rest[k] IN
       IF s \notin b.have
       THEN IF s \notin R.par THEN [R |-> R, b |-> [b EXCEPT !.pc = "raise"]]                           \* unknown source
            ELSE [R |-> R, b |-> [b EXCEPT !.cur = NextKey(b.rest, k)]]                                 \* later pass
       ELSE IF AliasRefusedC(R, s, k, FALSE, up) THEN [R |-> R, b |-> [b EXCEPT !.pc = "raise"]]
       ELSE LET rest2 == Remove(b.rest, k) IN
            [R |-> AliasEff(R, s, k, FALSE, up),
             b |-> [b EXCEPT !.rest = rest2, !.cur = NextKey(rest2, k), !.have = @ \cup {k}, !.order = Append(@, k)]]

RECURSIVE MapRoot(_, _, _)
MapRoot(m, k, n) == IF n = 0 \/ k \notin DOMAIN m THEN k ELSE MapRoot(m, m[k], n - 1)
\* after the links the new followers are brought to the value of the end of their chain in the map
SyncWrites(R, b) == [i \in DOMAIN b.order |-> <<b.order[i], R.val[MapRoot(b.m, b.order[i], Cardinality(DOMAIN b.m))]>>]

\* state after the first n links of the sequence `order` (each link is Alias(m[k], k))
RECURSIVE AfterLinks(_, _, _, _, _)
AfterLinks(R, m, order, n, up) ==
  IF n = 0 THEN R ELSE AliasEff(AfterLinks(R, m, order, n - 1, up), m[order[n]], order[n], FALSE, up)

\* ------------------------------------------------------------------ actions
Init == own = <<>> /\ bulk = Idle /\ out = [op |-> "Init", o |-> 0, t |-> 0, r |-> "ok"]

Quiet == bulk.pc = "idle"
Ret(op, o, t, r) == out' = [op |-> op, o |-> o, t |-> t, r |-> r]
Upd(o, R) == own' = [own EXCEPT ![o] = R]

NewRec(P, val, con, n) ==
  [par |-> P, val |-> val, con |-> con, al |-> <<>>, ind |-> P, ns |-> n,
   req |-> [p \in P |-> IF con[p] = NoCon THEN {} ELSE {con[p]}]]

New(o, P, val, con, n) ==
  /\ Quiet /\ o \notin Live
  /\ \A p \in P : Accepts(con[p], val[p])
  /\ own' = Put(own, o, NewRec(P, val, con, n))
  /\ Ret("New", o, 0, "ok") /\ UNCHANGED bulk

Alias(o, a, b, adopt, up) ==
  /\ Quiet /\ o \in Live
  /\ LET R == own[o] IN
     IF AliasRefusedC(R, a, b, adopt, up)
     THEN Ret("Alias", o, 0, "raise") /\ UNCHANGED <<own, bulk>>
     ELSE Upd(o, AliasEff(R, a, b, adopt, up)) /\ Ret("Alias", o, 0, "ok") /\ UNCHANGED bulk

Unalias(o, a, b) ==
  /\ Quiet /\ o \in Live
  /\ LET R == own[o] IN
     IF UnaliasRefused(R, a, b)
     THEN Ret("Unalias", o, 0, "raise") /\ UNCHANGED <<own, bulk>>
     ELSE Upd(o, UnaliasEff(R, a, b)) /\ Ret("Unalias", o, 0, "ok") /\ UNCHANGED bulk

SetByName(o, a, v) ==
  /\ Quiet /\ o \in Live
  /\ LET R == own[o] IN
     \* a value that a or one of its followers rejects can never become the common value: refused
     IF (IF a \notin R.par THEN TRUE ELSE ~SetAcceptable(R, a, v))
     THEN Ret("Set", o, 0, "raise") /\ UNCHANGED <<own, bulk>>
     ELSE Upd(o, SetDef(R, a, v)) /\ Ret("Set", o, 0, "ok") /\ UNCHANGED bulk

\* setParametersValues / matchParametersValues of the owner
BulkSet(o, ws, op) ==
  /\ Quiet /\ o \in Live
  /\ LET R == own[o] IN
     /\ WritesConsistent(R, ws)
     /\ IF WritesRejected(R, ws)
        THEN Ret(op, o, 0, "raise") /\ UNCHANGED <<own, bulk>>
        ELSE Upd(o, Writes(R, ws, FALSE)) /\ Ret(op, o, 0, "ok") /\ UNCHANGED bulk

CopyConstruct(s, t) ==
  /\ Quiet /\ s \in Live /\ t \notin Live
  /\ own' = Put(own, t, own[s]) /\ Ret("Copy", s, t, "ok") /\ UNCHANGED bulk

AssignOwner(s, t) ==                   \* t := s, t live (possibly non-empty, possibly s itself)
  /\ Quiet /\ s \in Live /\ t \in Live
  /\ Upd(t, own[s]) /\ Ret("Assign", s, t, "ok") /\ UNCHANGED bulk

SetNamespace(o, n) ==
  /\ Quiet /\ o \in Live
  /\ Upd(o, [own[o] EXCEPT !.ns = n]) /\ Ret("SetNs", o, 0, "ok") /\ UNCHANGED bulk

Drop(o) ==
  /\ Quiet /\ o \in Live
  /\ own' = Remove(own, o) /\ Ret("Drop", o, 0, "ok") /\ UNCHANGED bulk

\* bulk alias: the call, its loop iterations, its return
BulkCall(o, m) ==
  /\ Quiet /\ o \in Live
  /\ bulk' = BulkBegin(own[o], o, m)
  /\ Ret("BulkAlias", o, 0, "run") /\ UNCHANGED own

\* Under a non-empty namespace the interface does not say how the names of the
\* map are spelled (the code compares them with qualified names and then links
\* with bare ones, so it refuses every non-empty map): refusing is allowed.
BulkRefuseNs(o, m) ==
  /\ Quiet /\ o \in Live /\ own[o].ns # 0 /\ DOMAIN m # {}
  /\ Ret("BulkAlias", o, 0, "raise") /\ UNCHANGED <<own, bulk>>

BulkStep ==
  /\ bulk.pc = "loop"
  /\ LET S == BulkIter(own[bulk.o], bulk, TRUE) IN Upd(bulk.o, S.R) /\ bulk' = S.b
  /\ UNCHANGED out

BulkReturnRaise ==
  /\ bulk.pc = "raise"
  /\ Ret("BulkAlias", bulk.o, 0, "raise") /\ bulk' = Idle /\ UNCHANGED own

\* the statement does not say whether the new followers are brought to their
\* source's value by the call ("update the object accordingly"): either
BulkReturnOk ==
  /\ bulk.pc = "ok"
  /\ \E sync \in BOOLEAN :
       Upd(bulk.o, IF sync THEN Writes(own[bulk.o], SyncWrites(own[bulk.o], bulk), FALSE) ELSE own[bulk.o])
  /\ Ret("BulkAlias", bulk.o, 0, "ok") /\ bulk' = Idle

\* ------------------------------------------------------------------ design model
ConFns(P) == [P -> Cons]
WriteLists == UNION {[1..n -> Names \X Vals] : n \in 1..MaxWrites}

DoNew     == \E o \in Owners, P \in ParSets, n \in NSs : \E val \in [P -> Vals], con \in ConFns(P) : New(o, P, val, con, n)
DoAlias   == \E o \in Live, a, b \in Names : Alias(o, a, b, FALSE, TRUE)
DoUnalias == \E o \in Live, a, b \in Names : Unalias(o, a, b)
DoSet     == \E o \in Live, a \in Names, v \in Vals : SetByName(o, a, v)
DoBulkSet == \E o \in Live, ws \in WriteLists : BulkSet(o, ws, "BulkSet")
DoMatch   == \E o \in Live, ws \in WriteLists : BulkSet(o, ws, "Match")
DoCopy    == \E s \in Live, t \in Owners : CopyConstruct(s, t)
DoAssign  == \E s \in Live, t \in Owners : AssignOwner(s, t)
DoSetNs   == \E o \in Live, n \in NSs : SetNamespace(o, n)
DoDrop    == \E o \in Live : Drop(o)
DoBulk    == \E o \in Live, m \in Maps : BulkCall(o, m)
DoBulkNs  == \E o \in Live, m \in Maps : BulkRefuseNs(o, m)
BulkRun   == BulkStep \/ BulkReturnRaise \/ BulkReturnOk

Next == DoNew \/ DoAlias \/ DoUnalias \/ DoSet \/ DoBulkSet \/ DoMatch \/ DoCopy \/ DoAssign \/ DoSetNs \/ DoDrop
        \/ DoBulk \/ DoBulkNs \/ BulkStep \/ BulkReturnRaise \/ BulkReturnOk

Spec     == Init /\ [][Next]_vars
FairSpec == Spec /\ WF_vars(BulkRun)

\* ------------------------------------------------------------------ the property
TypeOK ==
  /\ \A o \in Live : LET R == own[o] IN
       /\ DOMAIN R.val = R.par /\ DOMAIN R.con = R.par /\ DOMAIN R.req = R.par
       /\ DOMAIN R.al \subseteq R.par /\ \A b \in DOMAIN R.al : R.al[b] \in R.par
       /\ R.ind \subseteq R.par
  /\ bulk.pc \in {"idle", "loop", "ok", "raise"}

\* B is no longer listed among the independent parameters - and everything else is
IndepComplement == \A o \in Live : own[o].ind = own[o].par \ DOMAIN own[o].al
Acyclic         == \A o \in Live : AcyclicR(own[o])
ParamOK         == \A o \in Live : \A p \in own[o].par : Accepts(own[o].con[p], own[o].val[p])
\* req[p] (ghost) = the constraints p and everything that was aliased to p had:
\* the value of p - the common value once it is propagated - satisfies them all,
\* because the constraint p carries lies within each of them
SharedConstraint == \A o \in Live : \A p \in own[o].par : \A I \in own[o].req[p] : Accepts(I, own[o].val[p])
ConWithinHad     == \A o \in Live : \A p \in own[o].par : \A I \in own[o].req[p] : Within(own[o].con[p], I)
\* design of the code (up = TRUE): a source is at least as tight as everything that follows it,
\* hence a value the written parameter accepts is accepted all the way down (no half-done update)
ChainTight       == \A o \in Live : \A b \in own[o].par : \A a \in Anc(own[o], b) : Within(own[o].con[a], own[o].con[b])
WriteAllOrNothing == \A o \in Live : \A a \in own[o].par, v \in Vals : Accepts(own[o].con[a], v) => SetAcceptable(own[o], a, v)

Stays(o) == o \in Live /\ o \in DOMAIN own' /\ own'[o].par = own[o].par
IsUpdate == out'.op \in {"Set", "BulkSet", "Match", "BulkAlias"}

\* every update that changes a leaves every b that follows a equal to a
Follows ==
  [][IsUpdate => \A o \in Live : Stays(o) =>
        \A a \in own[o].par : own'[o].val[a] # own[o].val[a] =>
           \A b \in Followers(own'[o], a) : own'[o].val[b] = own'[o].val[a]]_vars

\* when both were constrained they carry the intersection afterwards
SharedIntersection ==
  [][(out'.op = "Alias" /\ out'.r = "ok") =>
       LET o == out'.o  R == own[o]  Q == own'[o] IN
       \A b \in DOMAIN Q.al \ DOMAIN R.al :
          LET a == Q.al[b] IN
          /\ (R.con[a] # NoCon /\ R.con[b] # NoCon) => (Q.con[a] = Inter(R.con[a], R.con[b]) /\ Q.con[b] = Q.con[a])
          /\ Within(Q.con[a], R.con[a]) /\ Within(Q.con[a], R.con[b])]_vars

\* a copy / an assignment carries the relation and the independent set; nothing else moves
CopyCarries ==
  [][(out'.op \in {"Copy", "Assign"} /\ out'.r = "ok") =>
       LET s == out'.o  t == out'.t IN
       /\ own'[t].al = own[s].al /\ own'[t].ind = own[s].ind /\ own'[t].val = own[s].val
       /\ own'[t].con = own[s].con /\ own'[t].par = own[s].par
       /\ \A o \in Live \ {t} : o \in DOMAIN own' /\ own'[o] = own[o]]_vars

\* every call acts on the parameters of one owner only
OwnerLocal ==
  [][\A o \in Live : (o \in DOMAIN own' /\ own'[o] # own[o]) =>
        (IF out'.op \in {"Copy", "Assign"} THEN o = out'.t ELSE o = out'.o)]_vars

\* a refused request leaves everything unchanged
RefusalKeeps ==
  [][(out'.r = "raise" /\ out'.op \in {"Alias", "Unalias", "Set", "BulkSet", "Match"}) => own' = own]_vars

\* un-aliasing restores b's independence and touches nothing else
UnaliasLocal ==
  [][(out'.op = "Unalias" /\ out'.r = "ok") =>
       LET o == out'.o  R == own[o]  Q == own'[o] IN
       \E b \in DOMAIN R.al : /\ Q.al = Remove(R.al, b) /\ Q.ind = R.ind \cup {b}
                              /\ Q.val = R.val /\ Q.con = R.con /\ Q.ns = R.ns]_vars

\* renaming preserves relation, independent set, values
RenameKeeps ==
  [][(out'.op = "SetNs") => LET o == out'.o IN own'[o] = [own[o] EXCEPT !.ns = own'[o].ns]]_vars

\* bulk aliasing terminates for every map
BulkTerminates == (bulk.pc # "idle") ~> (bulk.pc = "idle")

\* lemma: on states where every follower already equals its source, the
\* listener cascade and the definition agree for every write
Coherent(R) == \A b \in DOMAIN R.al : R.val[b] = R.val[R.al[b]]
CascadeLemma == \A o \in Live : Coherent(own[o]) =>
                   \A a \in own[o].par, v \in Vals : SetAlg(own[o], a, v) = SetDef(own[o], a, v)
=============================================================================
