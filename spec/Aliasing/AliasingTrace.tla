--------------------------- MODULE AliasingTrace ---------------------------
\* Trace validation for C03: every event recorded by harness/drv_alias.cpp from
\* real AbstractParameterAliasable objects must be a step of Aliasing, and the
\* state the model reaches must equal the state read back from the objects
\* through public const queries after the call (for ALL live owners: an update
\* through one owner that moves a parameter of another one is a mismatch).
\*
\* Event fields: e (action), o (owner), t (target owner of Copy / Assign),
\* a (arguments), n (namespace at construction), m (name map as list of
\* <<key, source>>), w (write list of <<name, value>>), r ("ok" | "raise"),
\* ret (flag returned by match), s = list of owner projections
\*     <<id, ns, <<name, value, constraint>>*, <<name, value>>* (independent list),
\*       <<name, getFrom(name)>>*, <<name, source>>* (getAliases),
\*       <<name, <<getAlias(name)>> >>*, <<names with hasIndependentParameter>> >>
\* Names are logged without their namespace.  Which spelling each query takes
\* and returns (measured on the code, the doc comments do not say):
\*   getFrom(qualified) -> bare      getAlias(bare) -> qualified, recursive only
\*   when the namespace is empty      getAliases() : qualified -> bare
\*   hasIndependentParameter(bare)    getIndependentParameters(): qualified
\* The driver asks each name query with both spellings and strips the namespace
\* from whatever comes back, so the relation is asserted under every namespace
\* without fixing a spelling convention the interface does not promise.
EXTENDS Aliasing, TraceLib

VARIABLE flag        \* "none", or the name of a known divergence the step exhibits

tvars == <<vars, flag, l>>

SeqSet(s, k) == {s[i][k] : i \in DOMAIN s}
Val(s, n)    == s[CHOOSE i \in DOMAIN s : s[i][1] = n]

OwnerMatches(R, x) ==
  /\ x[2] = R.ns
  /\ Len(x[3]) = Cardinality(R.par) /\ SeqSet(x[3], 1) = R.par
  /\ \A i \in DOMAIN x[3] : R.val[x[3][i][1]] = x[3][i][2] /\ SameSet(R.con[x[3][i][1]], x[3][i][3])
  \* the independent list: exactly the non-aliased parameters, each once, with the current value
  /\ Len(x[4]) = Cardinality(R.ind) /\ SeqSet(x[4], 1) = R.ind
  /\ \A i \in DOMAIN x[4] : R.val[x[4][i][1]] = x[4][i][2]
  \* getFrom: the direct source of every parameter (0 = none), under every namespace
  /\ Len(x[5]) = Cardinality(R.par) /\ SeqSet(x[5], 1) = R.par
  /\ \A i \in DOMAIN x[5] : x[5][i][2] = (IF x[5][i][1] \in DOMAIN R.al THEN R.al[x[5][i][1]] ELSE 0)
  \* getAliases: every aliased parameter is mapped to something it follows
  /\ SeqSet(x[6], 1) = DOMAIN R.al
  /\ \A i \in DOMAIN x[6] : x[6][i][2] \in Anc(R, x[6][i][1])
  \* getAlias(a): at least the direct followers of a, at most all its followers ("may be recursive or not")
  /\ SeqSet(x[7], 1) = R.par
  /\ \A i \in DOMAIN x[7] : LET a == x[7][i][1]  F == {x[7][i][2][j] : j \in DOMAIN x[7][i][2]} IN
        {b \in DOMAIN R.al : R.al[b] = a} \subseteq F /\ F \subseteq Followers(R, a)
  \* hasIndependentParameter
  /\ {x[8][j] : j \in DOMAIN x[8]} = R.ind

Matches(X, S) ==
  /\ Len(S) = Cardinality(DOMAIN X) /\ SeqSet(S, 1) = DOMAIN X
  /\ \A i \in DOMAIN S : OwnerMatches(X[S[i][1]], S[i])

Seen == Matches(own', Ev.s) /\ out'.r = Ev.r
Clean == flag' = "none"

TReset == /\ IsEvent("Reset")
          /\ own' = <<>> /\ bulk' = Idle /\ out' = [op |-> "Init", o |-> 0, t |-> 0, r |-> "ok"] /\ Clean

TNew == /\ IsEvent("New")
        /\ LET ps == Ev.pars  P == SeqSet(ps, 1) IN
           /\ Len(ps) = Cardinality(P)
           /\ New(Ev.o, P, [p \in P |-> Val(ps, p)[2]], [p \in P |-> Val(ps, p)[3]], Ev.n)
        /\ Seen /\ Clean

TAlias   == IsEvent("Alias") /\ (\E adopt, up \in BOOLEAN : Alias(Ev.o, Ev.a[1], Ev.a[2], adopt, up) /\ Seen) /\ Clean
TUnalias == IsEvent("Unalias") /\ Unalias(Ev.o, Ev.a[1], Ev.a[2]) /\ Seen /\ Clean
TCopy    == IsEvent("Copy") /\ CopyConstruct(Ev.o, Ev.t) /\ Seen /\ Clean
TAssign  == IsEvent("Assign") /\ AssignOwner(Ev.o, Ev.t) /\ Seen /\ Clean
TSetNs   == IsEvent("SetNs") /\ SetNamespace(Ev.o, Ev.a[1]) /\ Seen /\ Clean
TDrop    == IsEvent("Drop") /\ Drop(Ev.o) /\ Seen /\ Clean

\* a named diagnosis: a listener cascade that stops at a follower which already
\* holds the new value, so that a parameter further down the chain is not
\* updated (the code did this until 3867d3d).  Such a step is explained, but
\* flagged, and the invariant CascadeComplete rejects it by name.
ShortCircuited(o, X) ==
  /\ X # own[o]
  /\ own' = [own EXCEPT ![o] = X] /\ flag' = "ShortCircuit" /\ UNCHANGED bulk

TSet == /\ IsEvent("Set")
        /\ LET o == Ev.o  a == Ev.a[1]  v == Ev.a[2] IN
           \/ SetByName(o, a, v) /\ Seen /\ Clean
           \/ /\ Quiet /\ o \in Live /\ a \in own[o].par /\ SetAcceptable(own[o], a, v)
              /\ SetAlg(own[o], a, v) # SetDef(own[o], a, v)
              /\ ShortCircuited(o, SetAlg(own[o], a, v)) /\ Ret("Set", o, 0, "ok") /\ Seen

BulkWrites(op) ==
  /\ IsEvent(op)
  /\ LET o == Ev.o  ws == Ev.w IN
     \/ /\ BulkSet(o, ws, op) /\ Seen /\ Clean
        /\ (op = "Match" /\ Ev.r = "ok") => Ev.ret = WritesDiffer(own[o], ws)
     \/ /\ Quiet /\ o \in Live /\ WritesConsistent(own[o], ws) /\ ~WritesRejected(own[o], ws)
        /\ Writes(own[o], ws, TRUE) # Writes(own[o], ws, FALSE)
        /\ ShortCircuited(o, Writes(own[o], ws, TRUE)) /\ Ret(op, o, 0, "ok") /\ Seen
TBulkSet == BulkWrites("BulkSet")
TMatch   == BulkWrites("Match")

\* bulk aliasParameters: one event = the whole loop of the model
RECURSIVE RunBulk(_, _, _, _)
RunBulk(R, b, up, fuel) == IF b.pc # "loop" \/ fuel = 0 THEN [R |-> R, b |-> b]
                           ELSE LET S == BulkIter(R, b, up) IN RunBulk(S.R, S.b, up, fuel - 1)
MapOf(ms) == [k \in SeqSet(ms, 1) |-> Val(ms, k)[2]]

TBulkAlias ==
  /\ IsEvent("BulkAlias")
  /\ LET o == Ev.o  m == MapOf(Ev.m) IN
     /\ Quiet /\ o \in Live
     /\ Len(Ev.m) = Cardinality(DOMAIN m)
     /\ \/ \E up \in BOOLEAN :
            LET n   == Cardinality(DOMAIN m)
                fin == RunBulk(own[o], BulkBegin(own[o], o, m), up, (n + 2) * (n + 2))
                sw  == SyncWrites(fin.R, fin.b)
            IN
            \/ /\ fin.b.pc = "ok" /\ Ev.r = "ok"                       \* all links performed
               /\ \/ own' = [own EXCEPT ![o] = fin.R] /\ Clean          \* ... values left alone
                  \/ /\ ~WritesRejected(fin.R, sw)                       \* ... or synchronised
                     /\ own' = [own EXCEPT ![o] = Writes(fin.R, sw, FALSE)] /\ Clean
                  \/ /\ ~WritesRejected(fin.R, sw)
                     /\ Writes(fin.R, sw, TRUE) # Writes(fin.R, sw, FALSE)
                     /\ own' = [own EXCEPT ![o] = Writes(fin.R, sw, TRUE)] /\ flag' = "ShortCircuit"
            \/ /\ fin.b.pc = "ok" /\ Ev.r = "raise" /\ WritesRejected(fin.R, sw)   \* links made, synchronisation refused
               /\ own' = [own EXCEPT ![o] = fin.R] /\ Clean
            \/ /\ fin.b.pc = "raise" /\ Ev.r = "raise"                 \* refused: nothing, or the links made before the refusal
               /\ \E k \in 0..Len(fin.b.order) : own' = [own EXCEPT ![o] = AfterLinks(own[o], m, fin.b.order, k, up)]
               /\ Clean
        \* non-empty namespace: the spelling of the map's names is not defined, a refusal that changes nothing is accepted
        \/ /\ own[o].ns # 0 /\ DOMAIN m # {} /\ Ev.r = "raise" /\ own' = own /\ Clean
     /\ Ret("BulkAlias", o, 0, Ev.r) /\ UNCHANGED bulk
     /\ Matches(own', Ev.s)

TraceNext == TReset \/ TNew \/ TAlias \/ TUnalias \/ TCopy \/ TAssign \/ TSetNs \/ TDrop
             \/ TSet \/ TBulkSet \/ TMatch \/ TBulkAlias
TraceInit == Init /\ l = 1 /\ flag = "none"
TraceSpec == TraceInit /\ [][TraceNext]_tvars

CascadeComplete == flag = "none"
=============================================================================
