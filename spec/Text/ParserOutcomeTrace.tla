------------------------- MODULE ParserOutcomeTrace -------------------------
\* Trace validation for C16: Begin / End / Done events of harness/drv_textfuzz.cpp.
\* "Crash" and "Hang" events, and End events whose outcome is not "value" or
\* "raise", match no action.  A batch is complete when its last event is Done.
EXTENDS ParserOutcome, TraceLib

Has2(f) == f \in DOMAIN Ev
TReset == IsEvent("Reset") /\ pending' = <<>> /\ UNCHANGED calls
TBegin == /\ IsEvent("Begin")
          /\ Begin([entry |-> Ev.entry, v |-> Ev.v, known |-> Has2("in"),
                    in |-> IF Has2("in") THEN Ev.in ELSE <<>>, m |-> IF Has2("m") THEN Ev.m ELSE <<>>])
TEnd   == IsEvent("End") /\ Ev.entry = pending.entry /\ End(Ev.out)
TDone  == IsEvent("Done") /\ pending = <<>> /\ UNCHANGED vars

TraceNext == TReset \/ TBegin \/ TEnd \/ TDone
TraceInit == Init /\ l = 1
TraceSpec == TraceInit /\ [][TraceNext]_<<vars, l>>
PendingOK == pending = <<>> \/ pending.entry # ""
=============================================================================
