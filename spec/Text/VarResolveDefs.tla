--------------------------- MODULE VarResolveDefs ---------------------------
\* C17, variable resolution: "variable resolution reaches a fixed point in
\* which no resolvable reference remains".
\*
\* A map m sends variable names to values (both sequences of ASCII codes).  A
\* reference is DOLLAR OPENV name CLOSEV.  Definitions: well-formed values,
\* the dependency graph, cycles, the full expansion Expand (the value with
\* every reference replaced by the expansion of the variable it names), and
\* what a resolution call may answer (Outcome).
EXTENDS Integers, Sequences, FiniteSets

DOLLAR == 36     \* "$"
OPENV  == 40     \* "("
CLOSEV == 41     \* ")"

RefAt(v, i) == i < Len(v) /\ v[i] = DOLLAR /\ v[i + 1] = OPENV
RECURSIVE FirstRef(_, _)       \* first i >= from where a reference starts (0 if none)
FirstRef(v, from) == IF from >= Len(v) THEN 0 ELSE IF RefAt(v, from) THEN from ELSE FirstRef(v, from + 1)
RECURSIVE FirstClose(_, _)     \* first j >= from with v[j] = CLOSEV (0 if none)
FirstClose(v, from) == IF from > Len(v) THEN 0 ELSE IF v[from] = CLOSEV THEN from ELSE FirstClose(v, from + 1)
HasRef(v) == FirstRef(v, 1) # 0

PlainName(n) == \A i \in DOMAIN n : n[i] \notin {DOLLAR, OPENV, CLOSEV}

\* well-formed value: literal text without "$", "(", ")" and closed references to plain names
RECURSIVE WFFrom(_, _)
WFFrom(v, i) == IF i > Len(v) THEN TRUE
                ELSE IF RefAt(v, i)
                     THEN LET j == FirstClose(v, i + 2) IN
                            j # 0 /\ PlainName(SubSeq(v, i + 2, j - 1)) /\ WFFrom(v, j + 1)
                     ELSE v[i] \notin {DOLLAR, OPENV, CLOSEV} /\ WFFrom(v, i + 1)
WFValue(v) == WFFrom(v, 1)
WFMap(m)   == \A k \in DOMAIN m : PlainName(k) /\ WFValue(m[k])

RECURSIVE RefsFrom(_, _)       \* names referenced by a well-formed value
RefsFrom(v, i) == IF i > Len(v) THEN {}
                  ELSE IF RefAt(v, i) THEN LET j == FirstClose(v, i + 2) IN {SubSeq(v, i + 2, j - 1)} \cup RefsFrom(v, j + 1)
                  ELSE RefsFrom(v, i + 1)
Refs(v) == RefsFrom(v, 1)

Succ(m, S) == UNION {Refs(m[k]) \cap DOMAIN m : k \in S}
RECURSIVE Grow(_, _, _)
Grow(m, S, n) == IF n = 0 THEN S ELSE Grow(m, S \cup Succ(m, S), n - 1)
ReachPlus(m, k) == Grow(m, Succ(m, {k}), Cardinality(DOMAIN m))       \* variables k depends on
OnCycle(m, k)   == k \in ReachPlus(m, k)
Cyclic(m)       == \E k \in DOMAIN m : OnCycle(m, k)
\* k does not depend (directly or not) on a variable that lies on a cycle
CleanKey(m, k)  == \A j \in {k} \cup ReachPlus(m, k) : ~OnCycle(m, j)

\* full expansion; keep = references to undefined variables are left in place
\* (TRUE) or replaced by nothing (FALSE): the statement allows both, they are
\* not resolvable.  Only used where it terminates (CleanKey).
RECURSIVE Expand(_, _, _, _)
Expand(m, v, i, keep) ==
  IF i > Len(v) THEN <<>>
  ELSE IF RefAt(v, i)
       THEN LET j == FirstClose(v, i + 2)  n == SubSeq(v, i + 2, j - 1) IN
            (IF n \in DOMAIN m THEN Expand(m, m[n], 1, keep) ELSE IF keep THEN SubSeq(v, i, j) ELSE <<>>)
              \o Expand(m, v, j + 1, keep)
       ELSE <<v[i]>> \o Expand(m, v, i + 1, keep)
Resolved(m, k, keep) == Expand(m, m[k], 1, keep)

\* a reference to a defined variable remains in v
ResolvableRef(m, v) == \E i \in DOMAIN v : RefAt(v, i) /\ LET j == FirstClose(v, i + 2) IN
                                              j # 0 /\ SubSeq(v, i + 2, j - 1) \in DOMAIN m

\* What resolveVariables(m) may answer: ok = it returned, res = the map afterwards.
\*  - values that are not well formed (unclosed reference, stray bracket): not decided;
\*  - a variable that does not depend on a cycle gets its full expansion;
\*  - with cycles the call may raise; if it returns, nothing resolvable is left.
Outcome(m, ok, res) ==
  WFMap(m) =>
    /\ ~Cyclic(m) => ok
    /\ ok => /\ DOMAIN res = DOMAIN m
             /\ \E keep \in BOOLEAN : \A k \in DOMAIN m : CleanKey(m, k) => res[k] = Resolved(m, k, keep)
             /\ \A k \in DOMAIN m : ~ResolvableRef(m, res[k])

MapOf(pairs) == [n \in {pairs[i][1] : i \in DOMAIN pairs} |->
                   pairs[CHOOSE i \in DOMAIN pairs : pairs[i][1] = n][2]]
=============================================================================
