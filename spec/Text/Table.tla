-------------------------------- MODULE Table --------------------------------
\* Design model of DataTable as a state machine: every public member of
\* DataTable.h is an action (constructors, the four cell-access overloads for
\* reading and writing, names, has / get / add / delete / set for rows and
\* columns by index and by name, copy / assign, write, read with header on/off
\* and rowNames >= 0) whose outcome is ok or raise:<documented class> and whose
\* post-state is given by TableDefs!Sem / ReadSem.  Invariants: shape of the
\* object (names unique, every row has ncol cells, name vectors empty or of the
\* right length), RaiseKeeps (a refused call changes nothing), and the C17
\* round trip from every reachable table inside the statement's quantifier.
EXTENDS TableDefs, TLC

CONSTANTS MaxCol, MaxRow,      \* bounds explored by TLC
          CellVals, NameVals,  \* model values (sets of code sequences)
          Seps                 \* separators tried by write / read

VARIABLES T,      \* the table
          out     \* outcome of the last call: "init", "ok" or "raise" (values and classes are bound by trace validation)
vars == <<T, out>>

Init == T = NewTable(0, 0, <<>>) /\ out = "init"

\* one call: ok with the definitional post-state, or one of the documented refusals and no change
Call(op, a) ==
  LET S == Sem(op, a, T) IN
  IF S.refuse = {}
  THEN T' = S.post /\ out' = "ok"
  ELSE out' = "raise" /\ UNCHANGED T

ReadCall(sep, align, header, rn) ==
  LET S == ReadSem(RenderTable(T, sep, align), sep, header, rn) IN
  /\ S.decided
  /\ IF S.refuse = {} THEN T' = S.post /\ out' = "ok"
     ELSE out' = "raise" /\ UNCHANGED T

SeqsOf(S, n) == [1..n -> S]
Vecs == UNION {SeqsOf(CellVals, n) : n \in 0..(IF MaxRow > MaxCol THEN MaxRow ELSE MaxCol)}
NameLists == UNION {SeqsOf(NameVals, n) : n \in 0..(IF MaxRow > MaxCol THEN MaxRow ELSE MaxCol)}
Idx == 0..(IF MaxRow > MaxCol THEN MaxRow ELSE MaxCol)
Small == /\ T.ncol <= MaxCol /\ T.nrow <= MaxRow
         /\ \A i \in DOMAIN T.cells : \A j \in DOMAIN T.cells[i] : T.cells[i][j] \in CellVals \cup {<<>>}
         /\ Range(T.cols) \subseteq NameVals /\ Range(T.rows) \subseteq NameVals

Next ==
  \/ \E nr \in 0..MaxRow, nc \in 0..MaxCol : Call("new_rc", [nr |-> nr, nc |-> nc]) \/ Call("new_c", [nc |-> nc])
  \/ \E nr \in 0..MaxRow, ns \in NameLists : Call("new_rnames", [nr |-> nr, names |-> ns]) \/ Call("new_names", [names |-> ns])
  \/ Call("copy", <<>>)
  \/ \E i, j \in Idx, v \in CellVals : Call("get_ii", [i |-> i, j |-> j]) \/ Call("set_ii", [i |-> i, j |-> j, v |-> v])
  \/ \E rn, cn \in NameVals, v \in CellVals : Call("get_nn", [rn |-> rn, cn |-> cn]) \/ Call("set_nn", [rn |-> rn, cn |-> cn, v |-> v])
  \/ \E rn \in NameVals, j \in Idx, v \in CellVals : Call("get_ni", [rn |-> rn, j |-> j]) \/ Call("set_ni", [rn |-> rn, j |-> j, v |-> v])
  \/ \E i \in Idx, cn \in NameVals, v \in CellVals : Call("get_in", [i |-> i, cn |-> cn]) \/ Call("set_in", [i |-> i, cn |-> cn, v |-> v])
  \/ \E ns \in NameLists : Call("setColNames", [names |-> ns]) \/ Call("setRowNames", [names |-> ns])
  \/ \E op \in {"getColNames", "hasColNames", "getRowNames", "hasRowNames", "ncols", "nrows"} : Call(op, <<>>)
  \/ \E i \in Idx : \E op \in {"getColName", "getCol_i", "delCol_i", "getRowName", "getRow_i", "delRow_i"} : Call(op, [i |-> i])
  \/ \E n \in NameVals : \E op \in {"getCol_n", "hasCol", "delCol_n", "hasRow", "getRow_n", "delRow_n"} : Call(op, [name |-> n])
  \/ \E i \in Idx, n \in NameVals : Call("setRowName", [i |-> i, name |-> n])
  \/ T.ncol < MaxCol /\ \E v \in Vecs : Call("addCol", [vec |-> v]) \/ \E n \in NameVals : Call("addCol_n", [name |-> n, vec |-> v])
  \/ T.nrow < MaxRow /\ \E v \in Vecs : Call("addRow", [vec |-> v]) \/ \E n \in NameVals : Call("addRow_n", [name |-> n, vec |-> v])
  \/ \E i \in Idx, v \in Vecs : Call("setRow", [i |-> i, vec |-> v])
  \/ \E sep \in Seps, al \in BOOLEAN : Call("write", [sep |-> sep, align |-> al])
  \/ \E sep \in Seps, al, h \in BOOLEAN, rn \in -1..MaxCol : ReadCall(sep, al, h, rn)
Spec == Init /\ [][Next]_vars

\* the properties
Shape == WellFormed(T)
RoundTripInv == \A sep \in Seps : \A align \in BOOLEAN : RoundTrip(T, sep, align)
RaiseKeeps == [][out' = "raise" => T' = T]_vars
\* queries and write are pure (Sem gives them post = T); spot-checked on every reachable table
QueriesPure == \A op \in {"getColNames", "hasColNames", "getRowNames", "hasRowNames", "ncols", "nrows"} : Sem(op, <<>>, T).post = T
\* reading back what was written, with the header flag the table calls for, gives the table again
ReadBackInv == \A sep \in Seps : \A align \in BOOLEAN :
                 InQuantifier(T, sep) =>
                   LET S == ReadSem(RenderTable(T, sep, align), sep, T.cols # <<>>, -1) IN S.decided /\ S.refuse = {} /\ S.post = T
Bounded == Small
=============================================================================
