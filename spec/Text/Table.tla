-------------------------------- MODULE Table --------------------------------
\* Design model of DataTable as an object that is built by editing calls and
\* then written and read back.  One action per public call with its
\* documented refusals (raise = nothing changes); the invariants are the
\* shape rules of the object and the C17 round trip for every reachable table
\* inside the statement's quantifier.
EXTENDS TableDefs, TLC

CONSTANTS MaxCol, MaxRow,      \* bounds explored by TLC
          CellVals, NameVals,  \* model values (sets of code sequences)
          Seps                 \* separators tried by the round trip

VARIABLES T, out
vars == <<T, out>>

Empty(nc) == [ncol |-> nc, nrow |-> 0, cols |-> <<>>, rows |-> <<>>, cells |-> <<>>]
Res(k, P) == [k |-> k, t |-> P]
Init == T = Empty(0) /\ out = Res("init", NoTable)

Raise == out' = Res("raise", NoTable) /\ UNCHANGED T
Ok(T2) == out' = Res("ok", NoTable) /\ T' = T2

New(nc) == Ok(Empty(nc))

SetColNames(ns) == IF ~Distinct(ns) \/ Len(ns) # T.ncol THEN Raise ELSE Ok([T EXCEPT !.cols = ns])
SetRowNames(ns) == IF ~Distinct(ns) \/ Len(ns) # T.nrow THEN Raise ELSE Ok([T EXCEPT !.rows = ns])

AddRow(r) == IF T.rows # <<>> \/ Len(r) # T.ncol THEN Raise
             ELSE Ok([T EXCEPT !.cells = Append(@, r), !.nrow = @ + 1])
AddRowNamed(n, r) ==
  IF (T.rows = <<>> /\ T.nrow # 0) \/ Len(r) # T.ncol \/ n \in Range(T.rows) THEN Raise
  ELSE Ok([T EXCEPT !.cells = Append(@, r), !.nrow = @ + 1, !.rows = Append(@, n)])

AddColumn(c) == IF T.cols # <<>> \/ Len(c) # T.nrow THEN Raise
                ELSE Ok([T EXCEPT !.cells = [i \in 1..T.nrow |-> Append(T.cells[i], c[i])], !.ncol = @ + 1])
AddColumnNamed(n, c) ==
  IF (T.cols = <<>> /\ T.ncol # 0) \/ Len(c) # T.nrow \/ n \in Range(T.cols) THEN Raise
  ELSE Ok([T EXCEPT !.cells = [i \in 1..T.nrow |-> Append(T.cells[i], c[i])], !.ncol = @ + 1, !.cols = Append(@, n)])

Without(s, i) == SubSeq(s, 1, i - 1) \o SubSeq(s, i + 1, Len(s))
DeleteRow(i) == IF i \notin 1..T.nrow THEN Raise
                ELSE Ok([T EXCEPT !.cells = Without(@, i), !.nrow = @ - 1,
                                   !.rows = IF @ = <<>> THEN <<>> ELSE Without(@, i)])
DeleteColumn(j) == IF j \notin 1..T.ncol THEN Raise
                   ELSE Ok([T EXCEPT !.cells = [i \in 1..T.nrow |-> Without(T.cells[i], j)], !.ncol = @ - 1,
                                      !.cols = IF @ = <<>> THEN <<>> ELSE Without(@, j)])
SetCell(i, j, v) == IF i \notin 1..T.nrow \/ j \notin 1..T.ncol THEN Raise
                    ELSE Ok([T EXCEPT !.cells[i][j] = v])

\* write then read: the object is not modified; the result is the table read back
WriteRead(sep, align) ==
  /\ InQuantifier(T, sep)
  /\ out' = Res("read", ParseTable(RenderTable(T, sep, align), sep, T.cols # <<>>)) /\ UNCHANGED T

SeqsOf(S, n) == [1..n -> S]
Next ==
  \/ \E nc \in 0..MaxCol : New(nc)
  \/ \E ns \in SeqsOf(NameVals, T.ncol) \cup SeqsOf(NameVals, 1) : SetColNames(ns)
  \/ \E ns \in SeqsOf(NameVals, T.nrow) \cup SeqsOf(NameVals, 1) : SetRowNames(ns)
  \/ T.nrow < MaxRow /\ \E r \in SeqsOf(CellVals, T.ncol) \cup SeqsOf(CellVals, 1) : AddRow(r) \/ \E n \in NameVals : AddRowNamed(n, r)
  \/ T.ncol < MaxCol /\ \E c \in SeqsOf(CellVals, T.nrow) \cup SeqsOf(CellVals, 1) : AddColumn(c) \/ \E n \in NameVals : AddColumnNamed(n, c)
  \/ \E i \in 1..(MaxRow + 1) : DeleteRow(i)
  \/ \E j \in 1..(MaxCol + 1) : DeleteColumn(j)
  \/ \E i \in 1..MaxRow, j \in 1..MaxCol, v \in CellVals : SetCell(i, j, v)
  \/ \E sep \in Seps, align \in BOOLEAN : WriteRead(sep, align)
Spec == Init /\ [][Next]_vars

\* the property
Shape == WellFormed(T)
RoundTripInv == \A sep \in Seps : \A align \in BOOLEAN : RoundTrip(T, sep, align)
ReadBack == out.k = "read" => Same(out.t, T)
RaiseKeeps == [][out'.k = "raise" => T' = T]_vars
=============================================================================
