--------------------------- MODULE NumberGrammar ---------------------------
\* C17, numbers: "number conversion accepts exactly the strings of a strict
\* decimal grammar, returning the value that grammar assigns and raising for
\* everything else".
\*
\* Strings are sequences of character codes:
\*   0..9 the decimal digits, MINUS, PLUS, DEC (the decimal separator given to
\*   the call), SCI (the exponent character given to the call), OTHERC (any
\*   other printable character), BLANK (white space).
\*
\* The grammar is given twice: declaratively (decomposition sign / integer
\* part / fraction / exponent: Parts, Lax, Strict) and as the left-to-right
\* automaton a recogniser is expected to implement (Scan).  GrammarLemma says
\* that both accept the same strings; it is checked by TLC on every string up
\* to a length bound (NumberLemmas.tla).
\*
\*   strict  number :  -? D+ ( DEC D+ )? ( SCI [+-]? D+ )?
\*   strict  integer:  -? D+ ( SCI +? D+ )?
\*   either ("lax but not strict", DESIGN 2c): a leading '+', an empty integer
\*           part or an empty fraction next to DEC (but not both): "+1" "1."
\*           ".5" "1.e5".  The statement does not decide them: a call may
\*           accept or raise, but when it accepts the value must be the one
\*           below.
\*   everything else must be refused.
EXTENDS Integers, Sequences

MINUS == 10
PLUS  == 11
DEC   == 12
SCI   == 13
OTHERC == 14
BLANK == 15
Alphabet == 0..15

IsDigit(c)   == c \in 0..9
AllDigits(s) == \A i \in DOMAIN s : IsDigit(s[i])

FirstIdx(s, c) == IF \E i \in DOMAIN s : s[i] = c
                  THEN CHOOSE i \in DOMAIN s : s[i] = c /\ \A j \in 1..(i - 1) : s[j] # c
                  ELSE 0

\* ---------------------------------------------------------------- declarative
Parts(s) ==
  LET sg   == IF s # <<>> /\ s[1] \in {MINUS, PLUS} THEN s[1] ELSE 0
      body == IF sg = 0 THEN s ELSE Tail(s)
      e    == FirstIdx(body, SCI)
      mant == IF e = 0 THEN body ELSE SubSeq(body, 1, e - 1)
      ex   == IF e = 0 THEN <<>> ELSE SubSeq(body, e + 1, Len(body))
      d    == FirstIdx(mant, DEC)
      ip   == IF d = 0 THEN mant ELSE SubSeq(mant, 1, d - 1)
      fp   == IF d = 0 THEN <<>> ELSE SubSeq(mant, d + 1, Len(mant))
      es   == IF ex # <<>> /\ ex[1] \in {MINUS, PLUS} THEN ex[1] ELSE 0
      ed   == IF es = 0 THEN ex ELSE Tail(ex)
  IN [sign |-> sg, ip |-> ip, hasdec |-> d # 0, fp |-> fp, hasexp |-> e # 0, esign |-> es, ed |-> ed]

LaxP(p) == /\ AllDigits(p.ip) /\ AllDigits(p.fp) /\ AllDigits(p.ed)
           /\ (p.ip # <<>> \/ p.fp # <<>>)
           /\ (p.hasexp => p.ed # <<>>)
StrictP(p) == LaxP(p) /\ p.sign # PLUS /\ p.ip # <<>> /\ (p.hasdec => p.fp # <<>>)
IntShapeP(p) == ~p.hasdec /\ p.esign # MINUS

LaxNumber(s)    == LaxP(Parts(s))
StrictNumber(s) == StrictP(Parts(s))
LaxInteger(s)    == LaxP(Parts(s)) /\ IntShapeP(Parts(s))
StrictInteger(s) == StrictP(Parts(s)) /\ IntShapeP(Parts(s))

\* "strict" must be accepted, "reject" must be refused, "either" is not decided
ClassNumber(s)  == IF StrictNumber(s) THEN "strict" ELSE IF LaxNumber(s) THEN "either" ELSE "reject"
ClassInteger(s) == IF StrictInteger(s) THEN "strict" ELSE IF LaxInteger(s) THEN "either" ELSE "reject"

\* ---------------------------------------------------------------- automaton
\* state: 0 start, 1 after the sign, 2 integer digits, 3 DEC without integer
\* digits, 4 DEC after integer digits (no fraction digit yet), 5 fraction
\* digits, 6 after SCI, 7 after the exponent sign, 8 exponent digits, 9 dead.
\* lax: a '+' sign or an empty integer part / fraction was seen.
\* neg: the exponent sign is '-' ; dec: DEC was seen.
Step(q, c) ==
  LET st == q.st IN
  CASE st = 0 /\ c = MINUS -> [q EXCEPT !.st = 1]
    [] st = 0 /\ c = PLUS  -> [q EXCEPT !.st = 1, !.lax = TRUE]
    [] st \in {0, 1, 2} /\ IsDigit(c) -> [q EXCEPT !.st = 2]
    [] st \in {0, 1} /\ c = DEC -> [q EXCEPT !.st = 3, !.lax = TRUE, !.dec = TRUE]
    [] st = 2 /\ c = DEC -> [q EXCEPT !.st = 4, !.dec = TRUE]
    [] st \in {3, 4, 5} /\ IsDigit(c) -> [q EXCEPT !.st = 5]
    [] st \in {2, 5} /\ c = SCI -> [q EXCEPT !.st = 6]
    [] st = 4 /\ c = SCI -> [q EXCEPT !.st = 6, !.lax = TRUE]
    [] st = 6 /\ c = MINUS -> [q EXCEPT !.st = 7, !.neg = TRUE]
    [] st = 6 /\ c = PLUS -> [q EXCEPT !.st = 7]
    [] st \in {6, 7, 8} /\ IsDigit(c) -> [q EXCEPT !.st = 8]
    [] OTHER -> [q EXCEPT !.st = 9]

RECURSIVE ScanFrom(_, _, _)
ScanFrom(s, i, q) == IF i > Len(s) THEN q ELSE ScanFrom(s, i + 1, Step(q, s[i]))
Scan(s) == ScanFrom(s, 1, [st |-> 0, lax |-> FALSE, neg |-> FALSE, dec |-> FALSE])

AutoLaxNumber(s)    == Scan(s).st \in {2, 4, 5, 8}
AutoStrictNumber(s) == LET q == Scan(s) IN q.st \in {2, 5, 8} /\ ~q.lax
AutoLaxInteger(s)    == LET q == Scan(s) IN q.st \in {2, 8} /\ ~q.dec /\ ~q.neg
AutoStrictInteger(s) == LET q == Scan(s) IN q.st \in {2, 8} /\ ~q.dec /\ ~q.neg /\ ~q.lax

\* ---------------------------------------------------------------- value
\* Exact integer arithmetic with explicit 32-bit guards: NA = "not
\* representable in the encoding", then nothing is asserted about the value.
NA == -2147483647        \* sentinel, outside the representable range below
Pow10(k) == CASE k = 0 -> 1 [] k = 1 -> 10 [] k = 2 -> 100 [] k = 3 -> 1000 [] k = 4 -> 10000
              [] k = 5 -> 100000 [] k = 6 -> 1000000 [] k = 7 -> 10000000 [] k = 8 -> 100000000
              [] k = 9 -> 1000000000
MAXI == 2147483646

RECURSIVE NumOf(_)
NumOf(ds) == IF ds = <<>> THEN 0 ELSE 10 * NumOf(SubSeq(ds, 1, Len(ds) - 1)) + ds[Len(ds)]

RECURSIVE StripZeros(_)
StripZeros(ds) == IF ds # <<>> /\ ds[1] = 0 THEN StripZeros(Tail(ds)) ELSE ds

\* mantissa digits M, decimal exponent k : value = M * 10^k  (or NA)
Scaled(M, k) ==
  IF M = 0 THEN 0
  ELSE IF k >= 0
       THEN (IF k <= 9 /\ M <= MAXI \div Pow10(k) THEN M * Pow10(k) ELSE NA)
       ELSE (IF -k <= 9 /\ M % Pow10(-k) = 0 THEN M \div Pow10(-k) ELSE NA)

\* value of a lax number times 10^shift, as an integer, or NA
ValueScaled(s, shift) ==
  LET p  == Parts(s)
      md == StripZeros(p.ip \o p.fp)
      xd == StripZeros(p.ed) IN
  IF Len(md) > 9 \/ Len(xd) > 2 THEN NA
  ELSE LET M == NumOf(md)
           E == IF p.esign = MINUS THEN -NumOf(xd) ELSE NumOf(xd)
           v == Scaled(M, E - Len(p.fp) + shift) IN
       IF v = NA THEN NA ELSE IF p.sign = MINUS THEN -v ELSE v

\* the value of a lax integer certainly exceeds 32 bits: at least 11 significant digits
\* (value >= 10^10 > 2^31); such a string cannot be converted to an int
TooBigForInt(s) ==
  LET p  == Parts(s)
      md == StripZeros(p.ip)
      xd == StripZeros(p.ed) IN
  /\ LaxInteger(s) /\ md # <<>>
  /\ (Len(xd) > 2 \/ Len(md) + NumOf(xd) > 10)

Value6(s)   == ValueScaled(s, 6)     \* value * 10^6  (fixed-point grid used for doubles)
IntValue(s) == ValueScaled(s, 0)     \* exact integer value

\* ---------------------------------------------------------------- decimal identity
\* Two number strings denote the same decimal iff they have the same canonical form: sign, significant
\* digits without leading / trailing zeros, and the power of ten e with value = 0.d1d2... * 10^e.  This
\* compares values of any magnitude exactly without computing them (no 32-bit limit on the mantissa).
RECURSIVE StripTrailingZeros(_)
StripTrailingZeros(ds) == IF ds # <<>> /\ ds[Len(ds)] = 0 THEN StripTrailingZeros(SubSeq(ds, 1, Len(ds) - 1)) ELSE ds
CanonDec(s) ==
  LET p    == Parts(s)
      md   == p.ip \o p.fp
      lead == Len(md) - Len(StripZeros(md))
      ds   == StripTrailingZeros(StripZeros(md))
      xd   == StripZeros(p.ed)
      E    == IF p.esign = MINUS THEN -NumOf(xd) ELSE NumOf(xd) IN
  IF ds = <<>> THEN [neg |-> FALSE, ds |-> <<>>, e |-> 0]
  ELSE [neg |-> p.sign = MINUS, ds |-> ds, e |-> Len(p.ip) - lead + E]
SameDecimal(a, b) == Len(StripZeros(Parts(a).ed)) <= 8 /\ Len(StripZeros(Parts(b).ed)) <= 8 /\ CanonDec(a) = CanonDec(b)
SigDigits(s) == Len(CanonDec(s).ds)

\* canonical form of q * 10^-6 (q an integer)
RECURSIVE DigitsOfNat(_)
DigitsOfNat(n) == IF n < 10 THEN <<n>> ELSE Append(DigitsOfNat(n \div 10), n % 10)
CanonOfMicro(q) ==
  IF q = 0 THEN [neg |-> FALSE, ds |-> <<>>, e |-> 0]
  ELSE LET a == IF q < 0 THEN -q ELSE q  d == DigitsOfNat(a) IN
       [neg |-> q < 0, ds |-> StripTrailingZeros(d), e |-> Len(d) - 6]

\* ASCII codes -> the classes of this module, for the given separator characters
FromAscii(s, dec, sci) ==
  [i \in DOMAIN s |-> LET c == s[i] IN
     IF c \in 48..57 THEN c - 48
     ELSE IF c = 45 THEN MINUS ELSE IF c = 43 THEN PLUS
     ELSE IF c = dec THEN DEC ELSE IF c = sci THEN SCI
     ELSE IF c \in {32, 9, 10, 11, 12, 13} THEN BLANK ELSE OTHERC]

\* ---------------------------------------------------------------- formatting
\* decimal rendering of an integer (what "formatted with sufficient precision"
\* means for ints): optional '-', digits without leading zeros
RECURSIVE DigitsOf(_)
DigitsOf(n) == IF n < 10 THEN <<n>> ELSE Append(DigitsOf(n \div 10), n % 10)
RenderInt(n) == IF n < 0 THEN <<MINUS>> \o DigitsOf(-n) ELSE DigitsOf(n)

\* ---------------------------------------------------------------- lemmas
RECURSIVE Strings(_, _)
Strings(A, n) == IF n = 0 THEN {<<>>}
                 ELSE LET S == Strings(A, n - 1) IN S \cup {Append(s, c) : s \in S, c \in A}

GrammarLemma(A, n) ==
  \A s \in Strings(A, n) :
     /\ LaxNumber(s) = AutoLaxNumber(s)
     /\ StrictNumber(s) = AutoStrictNumber(s)
     /\ LaxInteger(s) = AutoLaxInteger(s)
     /\ StrictInteger(s) = AutoStrictInteger(s)
     /\ (StrictInteger(s) => StrictNumber(s))
     /\ (StrictNumber(s) => LaxNumber(s))

\* rendering an integer gives a strict integer whose value is that integer
RenderLemma(lo, hi) ==
  \A n \in lo..hi : StrictInteger(RenderInt(n)) /\ IntValue(RenderInt(n)) = n

\* a few fixed points of the value function, digit by digit
ValueLemma ==
  /\ Value6(<<1, DEC, 5>>) = 1500000
  /\ Value6(<<MINUS, 0, DEC, 0, 2, 5>>) = -25000
  /\ Value6(<<1, SCI, MINUS, 3>>) = 1000
  /\ Value6(<<1, SCI, MINUS, 7>>) = NA
  /\ Value6(<<2, 5, SCI, 2>>) = NA
  /\ IntValue(<<2, 5, SCI, 2>>) = 2500
  /\ IntValue(<<MINUS, 1, 2, 3, SCI, 6>>) = -123000000
  /\ IntValue(<<3, SCI, 9>>) = NA
  /\ IntValue(<<0, SCI, 9, 9>>) = 0
  /\ TooBigForInt(<<1, 8, 4, 4, 6, 7, 4, 4, 0, 7, 3, SCI, 1>>) /\ TooBigForInt(<<1, SCI, 1, 0>>) /\ TooBigForInt(<<MINUS, 3, SCI, 1, 2, 3>>)
  /\ ~TooBigForInt(<<2, 1, 4, 7, 4, 8, 3, 6, 4, 8>>) /\ ~TooBigForInt(<<0, SCI, 9, 9>>) /\ ~TooBigForInt(<<0, 0, 0, 0, 0, 0, 0, 0, 0, 0, 0, 7>>)
  /\ SameDecimal(<<1, DEC, 5, 0>>, <<1, 5, SCI, MINUS, 1>>) /\ SameDecimal(<<0, DEC, 0, 0, 1, 2>>, <<1, DEC, 2, SCI, MINUS, 3>>)
  /\ SameDecimal(<<1, 2, 0, 0>>, <<1, DEC, 2, SCI, PLUS, 0, 3>>) /\ SameDecimal(<<MINUS, 0>>, <<0, DEC, 0>>)
  /\ ~SameDecimal(<<1, 2>>, <<1, DEC, 2>>) /\ ~SameDecimal(<<1>>, <<MINUS, 1>>) /\ SigDigits(<<0, DEC, 0, 1, 0, 5, 0>>) = 3
  /\ CanonOfMicro(1500000) = CanonDec(<<1, DEC, 5, 0, 0>>) /\ CanonOfMicro(-125000) = CanonDec(<<MINUS, 0, DEC, 1, 2, 5, 0, 0, 0, 0, 0, 0, 0, 0, 0>>)
  /\ CanonOfMicro(0) = CanonDec(<<0, DEC, 0, 0>>) /\ CanonOfMicro(1000000000) = CanonDec(<<1, SCI, 3>>)
  /\ Value6(<<DEC, 5>>) = 500000
  /\ Value6(<<1, DEC>>) = 1000000
=============================================================================
