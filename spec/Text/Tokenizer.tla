------------------------------ MODULE Tokenizer ------------------------------
\* Design model of the tokeniser object (StringTokenizer): one action per
\* public call (construction, nextToken, hasMoreToken,
\* numberOfRemainingTokens, getToken, unparseRemainingTokens,
\* removeEmptyTokens) with the input string kept as ghost state; the
\* invariants are the C17 statement "tokenising and re-joining with the
\* recorded separators reproduces the input" extended to every cursor
\* position.  Definitions: TokenizerDefs.tla.
EXTENDS TokenizerDefs

CONSTANTS Alpha,      \* character codes of the inputs explored by TLC
          MaxLen,     \* bound on the input length
          Delims      \* set of delimiter arguments (sequences of codes)

VARIABLES live,       \* an object exists
          src,        \* ghost: the string given to the constructor
          opt,        \* <<d, solid, ae>>
          toks,       \* token list held by the object
          T,          \* tokenisation recorded at construction (lead / toks / seps)
          pos,        \* cursor = number of tokens consumed
          edited,     \* removeEmptyTokens has dropped a token: re-joining is no longer claimed
          out         \* result of the last call (<<kind, value>>)
vars == <<live, src, opt, toks, T, pos, edited, out>>
obj  == <<live, src, opt, toks, T, pos, edited>>

NoTok == [lead |-> <<>>, toks |-> <<>>, seps |-> <<>>]
Init == /\ live = FALSE /\ src = <<>> /\ opt = <<<<>>, FALSE, FALSE>> /\ toks = <<>> /\ T = NoTok
        /\ pos = 0 /\ edited = FALSE /\ out = <<"none">>

\* construction starts a scenario (the object has no mutator that re-reads a string)
Construct(s, d, solid, ae) ==
  /\ live' = TRUE
  /\ src' = s /\ opt' = <<d, solid, ae>>
  /\ T' = Tokenize(s, d, solid, ae)
  /\ toks' = T'.toks /\ pos' = 0 /\ edited' = FALSE /\ out' = <<"ok">>

New(s, d, solid, ae) == ~live /\ Construct(s, d, solid, ae)

Clear   == /\ live' = FALSE /\ src' = <<>> /\ opt' = <<<<>>, FALSE, FALSE>> /\ toks' = <<>> /\ T' = NoTok
           /\ pos' = 0 /\ edited' = FALSE /\ out' = <<"none">>
Discard == live /\ Clear

NextToken ==
  /\ live
  /\ IF pos < Len(toks)
     THEN pos' = pos + 1 /\ out' = <<"ok", toks[pos + 1]>> /\ UNCHANGED <<live, src, opt, toks, T, edited>>
     ELSE out' = <<"raise">> /\ UNCHANGED obj

HasMore     == live /\ out' = <<"bool", pos < Len(toks)>> /\ UNCHANGED obj
Remaining   == live /\ out' = <<"int", Len(toks) - pos>> /\ UNCHANGED obj
GetToken(i) == live /\ i \in 1..Len(toks) /\ out' = <<"tok", toks[i]>> /\ UNCHANGED obj

\* what unparseRemainingTokens must return while no token was dropped
UnparseNow  == Unparse(T, pos)
UnparseCall == live /\ ~edited /\ out' = <<"str", UnparseNow>> /\ UNCHANGED obj

\* removeEmptyTokens: empty tokens at or after the cursor disappear
RECURSIVE DropEmptyFrom(_, _, _)
DropEmptyFrom(ts, i, p) == IF i > Len(ts) THEN <<>>
                           ELSE (IF i > p /\ ts[i] = <<>> THEN <<>> ELSE <<ts[i]>>) \o DropEmptyFrom(ts, i + 1, p)
RemoveEmpty ==
  /\ live
  /\ toks' = DropEmptyFrom(toks, 1, pos)
  /\ edited' = (edited \/ toks' # toks)
  /\ out' = <<"ok">> /\ UNCHANGED <<live, src, opt, T, pos>>

Inputs == Strings(Alpha, MaxLen)
Next == \/ \E s \in Inputs, d \in Delims, solid, ae \in BOOLEAN : New(s, d, solid, ae)
        \/ NextToken \/ HasMore \/ Remaining \/ UnparseCall \/ RemoveEmpty \/ Discard
        \/ \E i \in 1..(MaxLen + 1) : GetToken(i)
Spec == Init /\ [][Next]_vars

\* the property
Rejoin      == (live /\ pos = 0 /\ ~edited) => UnparseNow = src
RestIsTail  == ~edited => IsSuffix(UnparseNow, src)
CursorOK    == pos \in 0..Len(toks)
TokensClean == \A k \in DOMAIN toks :
                 IF opt[2] THEN (opt[1] # <<>> => ~Occurs(opt[1], toks[k]))
                 ELSE Range(toks[k]) \cap Range(opt[1]) = {}
NoEmptyUnlessAllowed == (~opt[2] /\ ~opt[3]) => \A k \in DOMAIN toks : toks[k] # <<>>
\* consuming a token shortens the re-joined rest by exactly that token and its separator
ConsumeStep == [][(pos' = pos + 1 /\ ~edited) =>
                    Unparse(T, pos) = (IF pos = 0 THEN T.lead ELSE <<>>) \o toks[pos + 1]
                                       \o (IF pos + 1 <= Len(T.seps) THEN T.seps[pos + 1] ELSE <<>>) \o Unparse(T, pos + 1)]_vars
=============================================================================
