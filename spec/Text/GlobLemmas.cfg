SPECIFICATION Spec
CONSTANTS
  NP = 5
  NN = 5
