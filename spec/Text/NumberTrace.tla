----------------------------- MODULE NumberTrace -----------------------------
\* Trace validation of the number entry points of TextTools against
\* NumberGrammar.  One event per call:
\*   IsNum / IsInt    s = character codes, v = returned boolean
\*   ToDouble         s, r = "ok" | "raise" (bpp::Exception), q = round(result * 10^6),
\*                    g = result lies on the 10^-6 grid (to double rounding)
\*   ToInt            s, r, v = result
\*   IntRT            n, s = toString(n), r, back = toInt(s)
\*   DblRT            k, b (the double k / 2^b, b <= 6), p = precision,
\*                    s = toString(d, p), r, q = toDouble(s) * 10^6 (exact),
\*                    same = (toDouble(s) == d)
\*   DecRT            d = a decimal string with <= 15 significant digits, s = toString(toDouble(d), 15),
\*                    same = (toDouble(s) == toDouble(d))
\*   Dbl17RT          s = toString(x, 17) for a random finite double x, same = (toDouble(s) == x)
\* Ghost state: the verdict of the last recogniser call, so that the
\* converter and the recogniser are also required to agree with each other on
\* the strings the statement leaves open ("either").
EXTENDS NumberGrammar, TraceLib

VARIABLES lastNum, lastInt      \* <<string, accepted>> of the last IsNum / IsInt call, or <<>>
vars == <<lastNum, lastInt>>

Init == lastNum = <<>> /\ lastInt = <<>>

Verdict(class, accepted) == (class = "strict" => accepted) /\ (class = "reject" => ~accepted)
Raised(r) == r = "raise"                    \* a bpp::Exception (r = "raise_std" / "raise_other" match nothing)
Agrees(last, s, accepted) == (last # <<>> /\ last[1] = s) => last[2] = accepted

TReset == IsEvent("Reset") /\ lastNum' = <<>> /\ lastInt' = <<>>

TIsNum == /\ IsEvent("IsNum")
          /\ Ev.r = "ok" /\ Verdict(ClassNumber(Ev.s), Ev.v)
          /\ lastNum' = <<Ev.s, Ev.v>> /\ UNCHANGED lastInt

TIsInt == /\ IsEvent("IsInt")
          /\ Ev.r = "ok" /\ Verdict(ClassInteger(Ev.s), Ev.v)
          /\ lastInt' = <<Ev.s, Ev.v>> /\ UNCHANGED lastNum

\* A value outside the range of the result type cannot be returned: then the
\* call may raise although the string is in the grammar.
HugeExp(s) == Len(StripZeros(Parts(s).ed)) > 2
TToDouble ==
  /\ IsEvent("ToDouble")
  /\ Ev.r = "ok" \/ Raised(Ev.r)
  /\ ClassNumber(Ev.s) = "reject" => Raised(Ev.r)
  /\ (ClassNumber(Ev.s) = "strict" /\ ~HugeExp(Ev.s)) => Ev.r = "ok"
  /\ ~HugeExp(Ev.s) => Agrees(lastNum, Ev.s, Ev.r = "ok")
  /\ (Ev.r = "ok" /\ Value6(Ev.s) # NA) => (Ev.g /\ Ev.q = Value6(Ev.s))
  /\ UNCHANGED vars

TToInt ==
  /\ IsEvent("ToInt")
  /\ Ev.r = "ok" \/ Raised(Ev.r)
  /\ ClassInteger(Ev.s) = "reject" => Raised(Ev.r)
  /\ (ClassInteger(Ev.s) = "strict" /\ IntValue(Ev.s) # NA) => Ev.r = "ok"
  /\ TooBigForInt(Ev.s) => Raised(Ev.r)          \* no int is the value the grammar assigns
  /\ IntValue(Ev.s) # NA => Agrees(lastInt, Ev.s, Ev.r = "ok")
  /\ (Ev.r = "ok" /\ IntValue(Ev.s) # NA) => Ev.v = IntValue(Ev.s)
  /\ UNCHANGED vars

\* formatting an int and parsing it back
TIntRT ==
  /\ IsEvent("IntRT")
  /\ Ev.s = RenderInt(Ev.n)
  /\ Ev.r = "ok" /\ Ev.back = Ev.n
  /\ UNCHANGED vars

\* formatting a dyadic double with sufficient precision and parsing it back
TDblRT ==
  /\ IsEvent("DblRT")
  /\ Ev.b \in 0..6
  /\ LET target == Ev.k * (1000000 \div (2 ^ Ev.b)) IN
       /\ LaxNumber(Ev.s)
       /\ Value6(Ev.s) = target
       /\ Ev.r = "ok" /\ Ev.q = target /\ Ev.same
  /\ UNCHANGED vars

\* a decimal with at most 15 significant digits survives text -> double -> text (precision 15) -> double
\* exactly: the re-formatted string denotes the same decimal, and converts to the same double
TDecRT ==
  /\ IsEvent("DecRT")
  /\ StrictNumber(Ev.d) /\ SigDigits(Ev.d) <= 15
  /\ Ev.r = "ok" /\ LaxNumber(Ev.s) /\ SameDecimal(Ev.s, Ev.d) /\ Ev.same
  /\ UNCHANGED vars

\* any finite double formatted with 17 significant digits converts back to itself
TDbl17RT ==
  /\ IsEvent("Dbl17RT")
  /\ Ev.r = "ok" /\ LaxNumber(Ev.s) /\ SigDigits(Ev.s) <= 17 /\ Ev.same
  /\ UNCHANGED vars

TraceNext == TDecRT \/ TDbl17RT \/ TReset \/ TIsNum \/ TIsInt \/ TToDouble \/ TToInt \/ TIntRT \/ TDblRT
TraceInit == Init /\ l = 1
TraceSpec == TraceInit /\ [][TraceNext]_<<vars, l>>
=============================================================================
