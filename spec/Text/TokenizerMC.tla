----------------------------- MODULE TokenizerMC -----------------------------
\* Model values for the exhaustive run of the tokeniser design model
\* (sequences cannot be written in a TLC configuration file).
EXTENDS Tokenizer
McDelims == {<<44>>, <<44, 59>>, <<>>}
=============================================================================
