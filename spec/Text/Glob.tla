-------------------------------- MODULE Glob --------------------------------
\* C17, wildcard name matching: "wildcard name matching agrees with glob
\* semantics for '*'": a pattern is a sequence of character codes in which
\* STAR stands for any (possibly empty) sequence of characters and every other
\* character stands for itself; a name matches iff the whole name is covered.
\*
\* Three formulations: the recursive definition Match, the position automaton
\* MatchNFA (regular-language semantics, used for trace validation because it
\* is linear), and the cut-point definition MatchCuts (set-of-strings
\* semantics: the name is a concatenation of one piece per pattern character).
\* GlobLemma says they agree; it is checked by TLC on all patterns and names up
\* to a length bound (GlobLemmas.tla).
EXTENDS Integers, Sequences, FiniteSets

STAR == 42       \* "*"

RECURSIVE Match(_, _)
Match(p, n) ==
  IF p = <<>> THEN n = <<>>
  ELSE IF p[1] = STAR THEN Match(Tail(p), n) \/ (n # <<>> /\ Match(p, Tail(n)))
  ELSE n # <<>> /\ n[1] = p[1] /\ Match(Tail(p), Tail(n))

\* position automaton: state j = the first j pattern characters are consumed
RECURSIVE Close(_, _)
Close(p, S) == LET S2 == S \cup {j + 1 : j \in {k \in S : k < Len(p) /\ p[k + 1] = STAR}} IN
               IF S2 = S THEN S ELSE Close(p, S2)
Read(p, S, c) == {j + 1 : j \in {k \in S : k < Len(p) /\ p[k + 1] = c /\ c # STAR}}
                 \cup {j \in S : j >= 1 /\ p[j] = STAR}
RECURSIVE Run(_, _, _, _)
Run(p, n, i, S) == IF i > Len(n) THEN S ELSE Run(p, n, i + 1, Close(p, Read(p, S, n[i])))
MatchNFA(p, n) == Len(p) \in Run(p, n, 1, Close(p, {0}))

\* cut points: c[i] = number of name characters covered by the first i
\* pattern characters
MatchCuts(p, n) ==
  \E c \in [0..Len(p) -> 0..Len(n)] :
     /\ c[0] = 0 /\ c[Len(p)] = Len(n)
     /\ \A i \in 1..Len(p) :
          IF p[i] = STAR THEN c[i] >= c[i - 1]
          ELSE c[i] = c[i - 1] + 1 /\ n[c[i]] = p[i]

\* names selected by a pattern, in the order given
Select(p, names) == SelectSeq(names, LAMBDA n : MatchNFA(p, n))

RECURSIVE Strings(_, _)
Strings(A, k) == IF k = 0 THEN {<<>>}
                 ELSE LET S == Strings(A, k - 1) IN S \cup {Append(s, c) : s \in S, c \in A}

GlobLemma(A, np, nn) ==
  \A p \in Strings(A \cup {STAR}, np) : \A n \in Strings(A, nn) : Match(p, n) = MatchNFA(p, n)
CutsLemma(A, np, nn) ==
  \A p \in Strings(A \cup {STAR}, np) : \A n \in Strings(A, nn) : Match(p, n) = MatchCuts(p, n)
\* a few algebraic facts of the semantics
FactsLemma(A, k) ==
  \A n \in Strings(A, k) :
     /\ Match(<<STAR>>, n) /\ Match(n, n) /\ (Match(<<>>, n) <=> n = <<>>)
     /\ \A m \in Strings(A, k) : (Match(n, m) <=> n = m)                     \* star-free patterns match only themselves
                                  /\ Match(n \o <<STAR>> \o m, n \o m) /\ Match(<<STAR>> \o m, n \o m)
                                  /\ Match(n \o <<STAR>>, n \o m) /\ Match(<<STAR, STAR>> \o m, n \o m)
=============================================================================
