---------------------------- MODULE ParserOutcome ----------------------------
\* C16 (reduced form): "every string-processing and parsing entry point
\* terminates on every byte string and either returns a value or raises the
\* library's exception type".
\*
\* One call of an entry point is two steps: Begin(entry, variant, input) and
\* End(outcome) with outcome "value" or "raise" (a bpp::Exception).  There is
\* no step for a sanitizer report or signal ("Crash"), for a call that
\* exceeds its time budget ("Hang"), or for an exception that is not the
\* library's ("raise_std", "raise_other"): a trace containing one of them is
\* not a behaviour of this specification.  For the entry points modelled in
\* C17 the outcome is also predicted from the input (Predicted).
EXTENDS Integers, Sequences, FiniteSets

NG == INSTANCE NumberGrammar
TK == INSTANCE TokenizerDefs
KV == INSTANCE KeyvalDefs
VR == INSTANCE VarResolveDefs

CONSTANTS Entries      \* names of the entry points (model values for TLC's exhaustive run)

VARIABLES pending,     \* <<>> or the call in flight: [entry, v, known, in, m]
          calls        \* number of completed calls
vars == <<pending, calls>>

Outcomes == {"value", "raise"}

\* bytes -> classes of NumberGrammar for the separator characters of variant v
NumCodes(s, dec, sci) ==
  [i \in DOMAIN s |-> LET c == s[i] IN
     IF c \in 48..57 THEN c - 48
     ELSE IF c = 45 THEN NG!MINUS ELSE IF c = 43 THEN NG!PLUS
     ELSE IF c = dec THEN NG!DEC ELSE IF c = sci THEN NG!SCI
     ELSE IF c \in {32, 9, 10, 11, 12, 13} THEN NG!BLANK ELSE NG!OTHERC]
Dec(v) == CASE v = 0 -> 46 [] v = 1 -> 44 [] v = 2 -> 44 [] v = 3 -> 46 [] v = 4 -> 59      \* . , , . ;
Sci(v) == CASE v = 0 -> 101 [] v = 1 -> 69 [] v = 2 -> 101 [] v = 3 -> 100 [] v = 4 -> 120   \* e E e d x
HugeExp(codes) == Len(NG!StripZeros(NG!Parts(codes).ed)) > 2
NestedDelim(v) == CASE v % 3 = 0 -> <<44>> [] v % 3 = 1 -> <<44, 59>> [] v % 3 = 2 -> <<>>

\* what the C17 specifications say about the outcome of call p
Predicted(p, out) ==
  ~p.known \/
  CASE p.entry = "tt.toDouble" ->
         LET c == NumCodes(p.in, Dec(p.v), Sci(p.v)) IN
           /\ NG!ClassNumber(c) = "reject" => out = "raise"
           /\ (NG!ClassNumber(c) = "strict" /\ ~HugeExp(c)) => out = "value"
    [] p.entry = "tt.toInt" ->
         LET c == NumCodes(p.in, 46, Sci(p.v)) IN
           /\ NG!ClassInteger(c) = "reject" => out = "raise"
           /\ (NG!ClassInteger(c) = "strict" /\ NG!IntValue(c) # NG!NA) => out = "value"
    [] p.entry = "tok.nested" ->
         LET cls == TK!BracketClass(p.in) IN
           /\ cls = "unclosed" => out = "raise"
           /\ (cls = "balanced" /\ ~(p.v >= 3 /\ NestedDelim(p.v) = <<>>)) => out = "value"
    [] p.entry = "kv.parseProcedure" -> KV!Canonical(p.in) => out = "value"
    [] p.entry = "at.resolveVariables" ->
         LET m == VR!MapOf(p.m) IN (VR!WFMap(m) /\ ~VR!Cyclic(m)) => out = "value"
    [] OTHER -> TRUE

Init == pending = <<>> /\ calls = 0

Begin(p) == pending = <<>> /\ pending' = p /\ UNCHANGED calls
End(out) == /\ pending # <<>> /\ out \in Outcomes /\ Predicted(pending, out)
            /\ pending' = <<>> /\ calls' = calls + 1

Call(e) == [entry |-> e, v |-> 0, known |-> FALSE, in |-> <<>>, m |-> <<>>]
Next == (\E e \in Entries : Begin(Call(e))) \/ (\E o \in Outcomes : End(o))
Spec == Init /\ [][Next]_vars /\ WF_vars(\E o \in Outcomes : End(o))

\* the property: a call that began ends (with a value or the library's exception)
TypeOK == calls \in Nat /\ (pending = <<>> \/ pending.entry \in Entries)
EveryCallEnds == [](pending # <<>> => <>(pending = <<>>))
Bound == calls < 3
=============================================================================
