SPECIFICATION Spec
CONSTANTS
  N = 5
  R = 2000
