SPECIFICATION TraceSpec
INVARIANTS Shape
POSTCONDITION TraceAccepted
CHECK_DEADLOCK FALSE
