------------------------------ MODULE TableTrace ------------------------------
\* Trace validation of DataTable histories against TableDefs.tla.
\*   TabNew   nc, s               a new table with nc columns
\*   TabEdit  op, r, s            any editing call; s = the table afterwards
\*   TabWriteRead sep, align, header, text, r, back
\*            DataTable::write to text, DataTable::read of that text
\* s / back = [ncol, nrow, cols, rows, cells] read through the public const
\* interface.  The statement of C17 is about write -> read only, so editing
\* calls are bound loosely: whatever they do, the object must stay well formed
\* (shape and unique names) and a refused call must leave it unchanged; the
\* table they leave behind is the one the round trip is asserted for.
EXTENDS TableDefs, TraceLib

VARIABLE T
vars == <<T>>
Tab(s) == [ncol |-> s.ncol, nrow |-> s.nrow, cols |-> s.cols, rows |-> s.rows, cells |-> s.cells]
NoT == [ncol |-> 0, nrow |-> 0, cols |-> <<>>, rows |-> <<>>, cells |-> <<>>]

TReset  == IsEvent("Reset") /\ T' = NoT
TTabNew == IsEvent("TabNew") /\ T' = Tab(Ev.s) /\ T'.ncol = Ev.nc /\ T'.nrow = 0 /\ T'.cols = <<>> /\ T'.rows = <<>>
TTabEdit == /\ IsEvent("TabEdit")
            /\ Ev.r \in {"ok", "raise"}
            /\ T' = Tab(Ev.s)
            /\ Ev.r = "raise" => T' = T

TTabWriteRead ==
  /\ IsEvent("TabWriteRead")
  /\ InQuantifier(T, Ev.sep) =>
       /\ Ev.r = "ok"
       /\ Ev.header = (T.cols # <<>>)
       /\ Same(ParseTable(Ev.text, Ev.sep, Ev.header), T)            \* what was written denotes the table
       /\ Same([ok |-> TRUE] @@ Tab(Ev.back), T)                     \* and reads back identically
  /\ UNCHANGED T

TraceNext == TReset \/ TTabNew \/ TTabEdit \/ TTabWriteRead
TraceInit == T = NoT /\ l = 1
TraceSpec == TraceInit /\ [][TraceNext]_<<vars, l>>
Shape == WellFormed(T)
=============================================================================
