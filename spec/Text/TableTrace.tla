------------------------------ MODULE TableTrace ------------------------------
\* Trace validation of DataTable histories against TableDefs.tla.
\*   Tab      op, a (arguments), r, x (exception class), v (returned value), s (table afterwards)
\*            any public call; bound by TableDefs!Sem: outcome ok with the definitional post-state and
\*            value, or raise with a class that satisfies one of the documented refusals and no change
\*   TabRead  text, sep, header, rn, r, x, s     DataTable::read into the current table (ReadSem)
\*   TabWriteRead sep, align, header, text, r, back
\*            DataTable::write to text, DataTable::read of that text: the C17 statement, asserted for
\*            every table of the statement's quantifier that the history has reached
\* s / back = [ncol, nrow, cols, rows, cells] read through the public const interface.
EXTENDS TableDefs, TraceLib

VARIABLE T
vars == <<T>>
Tab(s) == [ncol |-> s.ncol, nrow |-> s.nrow, cols |-> s.cols, rows |-> s.rows, cells |-> s.cells]
NoT == [ncol |-> 0, nrow |-> 0, cols |-> <<>>, rows |-> <<>>, cells |-> <<>>]

TReset == IsEvent("Reset") /\ T' = NoT

Args(ev) == IF ev.op = "assign" THEN [t |-> Tab(ev.a.t)] ELSE ev.a
TTab ==
  /\ IsEvent("Tab")
  /\ LET S == Sem(Ev.op, Args(Ev), T) IN
     IF S.refuse = {}
     THEN Ev.r = "ok" /\ T' = S.post /\ Tab(Ev.s) = S.post /\ Ev.v = S.val
     ELSE /\ Ev.r = "raise" /\ \E c \in S.refuse : Satisfies(Ev.x, c)
          /\ T' = T /\ Tab(Ev.s) = T

TTabRead ==
  /\ IsEvent("TabRead")
  /\ Ev.r \in {"ok", "raise"}
  /\ LET S == ReadSem(Ev.text, Ev.sep, Ev.header, Ev.rn) IN
     /\ S.decided => IF S.refuse = {} THEN Ev.r = "ok" /\ Tab(Ev.s) = S.post
                     ELSE Ev.r = "raise" /\ \E c \in S.refuse : Satisfies(Ev.x, c)
     /\ T' = Tab(Ev.s)
     /\ Ev.r = "raise" => T' = T

TTabWriteRead ==
  /\ IsEvent("TabWriteRead")
  /\ InQuantifier(T, Ev.sep) =>
       /\ Ev.r = "ok"
       /\ Ev.header = (T.cols # <<>>)
       /\ Same(ParseTable(Ev.text, Ev.sep, Ev.header), T)            \* what was written denotes the table
       /\ Same([ok |-> TRUE] @@ Tab(Ev.back), T)                     \* and reads back identically
  /\ UNCHANGED T

TraceNext == TReset \/ TTab \/ TTabRead \/ TTabWriteRead
TraceInit == T = NoT /\ l = 1
TraceSpec == TraceInit /\ [][TraceNext]_<<vars, l>>
Shape == WellFormed(T)
=============================================================================
