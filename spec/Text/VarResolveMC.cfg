SPECIFICATION Spec
CONSTANTS
  Big = FALSE
  InitMaps <- McMaps
INVARIANTS AtDone AtRaise KeysKept StackDistinct StackBounded
PROPERTY Terminates
