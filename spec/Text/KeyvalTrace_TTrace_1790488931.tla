---- MODULE KeyvalTrace_TTrace_1790488931 ----
EXTENDS Sequences, TLCExt, Toolbox, Naturals, TLC, KeyvalTrace

_expression ==
    LET KeyvalTrace_TEExpression == INSTANCE KeyvalTrace_TEExpression
    IN KeyvalTrace_TEExpression!expression
----

_trace ==
    LET KeyvalTrace_TETrace == INSTANCE KeyvalTrace_TETrace
    IN KeyvalTrace_TETrace!trace
----

_inv ==
    ~(
        TLCGet("level") = Len(_TETrace)
        /\
        args = (<<>>)
        /\
        name = (<<>>)
        /\
        l = (56)
        /\
        live = (FALSE)
        /\
        out = ([name |-> <<>>, args |-> <<>>, ok |-> FALSE])
        /\
        desc = (<<>>)
    )
----

_init ==
    /\ l = _TETrace[1].l
    /\ out = _TETrace[1].out
    /\ desc = _TETrace[1].desc
    /\ name = _TETrace[1].name
    /\ args = _TETrace[1].args
    /\ live = _TETrace[1].live
----

_next ==
    /\ \E i,j \in DOMAIN _TETrace:
        /\ \/ /\ j = i + 1
              /\ i = TLCGet("level")
        /\ l  = _TETrace[i].l
        /\ l' = _TETrace[j].l
        /\ out  = _TETrace[i].out
        /\ out' = _TETrace[j].out
        /\ desc  = _TETrace[i].desc
        /\ desc' = _TETrace[j].desc
        /\ name  = _TETrace[i].name
        /\ name' = _TETrace[j].name
        /\ args  = _TETrace[i].args
        /\ args' = _TETrace[j].args
        /\ live  = _TETrace[i].live
        /\ live' = _TETrace[j].live

\* Uncomment the ASSUME below to write the states of the error trace
\* to the given file in Json format. Note that you can pass any tuple
\* to `JsonSerialize`. For example, a sub-sequence of _TETrace.
    \* ASSUME
    \*     LET J == INSTANCE Json
    \*         IN J!JsonSerialize("KeyvalTrace_TTrace_1790488931.json", _TETrace)

=============================================================================

 Note that you can extract this module `KeyvalTrace_TEExpression`
  to a dedicated file to reuse `expression` (the module in the 
  dedicated `KeyvalTrace_TEExpression.tla` file takes precedence 
  over the module `KeyvalTrace_TEExpression` below).

---- MODULE KeyvalTrace_TEExpression ----
EXTENDS Sequences, TLCExt, Toolbox, Naturals, TLC, KeyvalTrace

expression == 
    [
        \* To hide variables of the `KeyvalTrace` spec from the error trace,
        \* remove the variables below.  The trace will be written in the order
        \* of the fields of this record.
        l |-> l
        ,out |-> out
        ,desc |-> desc
        ,name |-> name
        ,args |-> args
        ,live |-> live
        
        \* Put additional constant-, state-, and action-level expressions here:
        \* ,_stateNumber |-> _TEPosition
        \* ,_lUnchanged |-> l = l'
        
        \* Format the `l` variable as Json value.
        \* ,_lJson |->
        \*     LET J == INSTANCE Json
        \*     IN J!ToJson(l)
        
        \* Lastly, you may build expressions over arbitrary sets of states by
        \* leveraging the _TETrace operator.  For example, this is how to
        \* count the number of times a spec variable changed up to the current
        \* state in the trace.
        \* ,_lModCount |->
        \*     LET F[s \in DOMAIN _TETrace] ==
        \*         IF s = 1 THEN 0
        \*         ELSE IF _TETrace[s].l # _TETrace[s-1].l
        \*             THEN 1 + F[s-1] ELSE F[s-1]
        \*     IN F[_TEPosition - 1]
    ]

=============================================================================



Parsing and semantic processing can take forever if the trace below is long.
 In this case, it is advised to uncomment the module below to deserialize the
 trace from a generated binary file.

\*
\*---- MODULE KeyvalTrace_TETrace ----
\*EXTENDS IOUtils, TLC, KeyvalTrace
\*
\*trace == IODeserialize("KeyvalTrace_TTrace_1790488931.bin", TRUE)
\*
\*=============================================================================
\*

---- MODULE KeyvalTrace_TETrace ----
EXTENDS TLC, KeyvalTrace

trace == 
    <<
    ([args |-> <<>>,name |-> <<>>,l |-> 1,live |-> FALSE,out |-> [name |-> <<>>, args |-> <<>>, ok |-> FALSE],desc |-> <<>>]),
    ([args |-> <<>>,name |-> <<>>,l |-> 2,live |-> FALSE,out |-> [name |-> <<>>, args |-> <<>>, ok |-> FALSE],desc |-> <<>>]),
    ([args |-> <<>>,name |-> <<>>,l |-> 3,live |-> FALSE,out |-> [name |-> <<>>, args |-> <<>>, ok |-> FALSE],desc |-> <<>>]),
    ([args |-> <<>>,name |-> <<>>,l |-> 4,live |-> FALSE,out |-> [name |-> <<>>, args |-> <<>>, ok |-> FALSE],desc |-> <<>>]),
    ([args |-> <<>>,name |-> <<>>,l |-> 5,live |-> FALSE,out |-> [name |-> <<>>, args |-> <<>>, ok |-> FALSE],desc |-> <<>>]),
    ([args |-> <<>>,name |-> <<>>,l |-> 6,live |-> FALSE,out |-> [name |-> <<>>, args |-> <<>>, ok |-> FALSE],desc |-> <<>>]),
    ([args |-> <<>>,name |-> <<>>,l |-> 7,live |-> FALSE,out |-> [name |-> <<>>, args |-> <<>>, ok |-> FALSE],desc |-> <<>>]),
    ([args |-> <<>>,name |-> <<>>,l |-> 8,live |-> FALSE,out |-> [name |-> <<>>, args |-> <<>>, ok |-> FALSE],desc |-> <<>>]),
    ([args |-> <<>>,name |-> <<>>,l |-> 9,live |-> FALSE,out |-> [name |-> <<>>, args |-> <<>>, ok |-> FALSE],desc |-> <<>>]),
    ([args |-> <<>>,name |-> <<>>,l |-> 10,live |-> FALSE,out |-> [name |-> <<>>, args |-> <<>>, ok |-> FALSE],desc |-> <<>>]),
    ([args |-> <<>>,name |-> <<>>,l |-> 11,live |-> FALSE,out |-> [name |-> <<>>, args |-> <<>>, ok |-> FALSE],desc |-> <<>>]),
    ([args |-> <<>>,name |-> <<>>,l |-> 12,live |-> FALSE,out |-> [name |-> <<>>, args |-> <<>>, ok |-> FALSE],desc |-> <<>>]),
    ([args |-> <<>>,name |-> <<>>,l |-> 13,live |-> FALSE,out |-> [name |-> <<>>, args |-> <<>>, ok |-> FALSE],desc |-> <<>>]),
    ([args |-> <<>>,name |-> <<>>,l |-> 14,live |-> FALSE,out |-> [name |-> <<>>, args |-> <<>>, ok |-> FALSE],desc |-> <<>>]),
    ([args |-> <<>>,name |-> <<>>,l |-> 15,live |-> FALSE,out |-> [name |-> <<>>, args |-> <<>>, ok |-> FALSE],desc |-> <<>>]),
    ([args |-> <<>>,name |-> <<>>,l |-> 16,live |-> FALSE,out |-> [name |-> <<>>, args |-> <<>>, ok |-> FALSE],desc |-> <<>>]),
    ([args |-> <<>>,name |-> <<>>,l |-> 17,live |-> FALSE,out |-> [name |-> <<>>, args |-> <<>>, ok |-> FALSE],desc |-> <<>>]),
    ([args |-> <<>>,name |-> <<>>,l |-> 18,live |-> FALSE,out |-> [name |-> <<>>, args |-> <<>>, ok |-> FALSE],desc |-> <<>>]),
    ([args |-> <<>>,name |-> <<>>,l |-> 19,live |-> FALSE,out |-> [name |-> <<>>, args |-> <<>>, ok |-> FALSE],desc |-> <<>>]),
    ([args |-> <<>>,name |-> <<>>,l |-> 20,live |-> FALSE,out |-> [name |-> <<>>, args |-> <<>>, ok |-> FALSE],desc |-> <<>>]),
    ([args |-> <<>>,name |-> <<>>,l |-> 21,live |-> FALSE,out |-> [name |-> <<>>, args |-> <<>>, ok |-> FALSE],desc |-> <<>>]),
    ([args |-> <<>>,name |-> <<>>,l |-> 22,live |-> FALSE,out |-> [name |-> <<>>, args |-> <<>>, ok |-> FALSE],desc |-> <<>>]),
    ([args |-> <<>>,name |-> <<>>,l |-> 23,live |-> FALSE,out |-> [name |-> <<>>, args |-> <<>>, ok |-> FALSE],desc |-> <<>>]),
    ([args |-> <<>>,name |-> <<>>,l |-> 24,live |-> FALSE,out |-> [name |-> <<>>, args |-> <<>>, ok |-> FALSE],desc |-> <<>>]),
    ([args |-> <<>>,name |-> <<>>,l |-> 25,live |-> FALSE,out |-> [name |-> <<>>, args |-> <<>>, ok |-> FALSE],desc |-> <<>>]),
    ([args |-> <<>>,name |-> <<>>,l |-> 26,live |-> FALSE,out |-> [name |-> <<>>, args |-> <<>>, ok |-> FALSE],desc |-> <<>>]),
    ([args |-> <<>>,name |-> <<>>,l |-> 27,live |-> FALSE,out |-> [name |-> <<>>, args |-> <<>>, ok |-> FALSE],desc |-> <<>>]),
    ([args |-> <<>>,name |-> <<>>,l |-> 28,live |-> FALSE,out |-> [name |-> <<>>, args |-> <<>>, ok |-> FALSE],desc |-> <<>>]),
    ([args |-> <<>>,name |-> <<>>,l |-> 29,live |-> FALSE,out |-> [name |-> <<>>, args |-> <<>>, ok |-> FALSE],desc |-> <<>>]),
    ([args |-> <<>>,name |-> <<>>,l |-> 30,live |-> FALSE,out |-> [name |-> <<>>, args |-> <<>>, ok |-> FALSE],desc |-> <<>>]),
    ([args |-> <<>>,name |-> <<>>,l |-> 31,live |-> FALSE,out |-> [name |-> <<>>, args |-> <<>>, ok |-> FALSE],desc |-> <<>>]),
    ([args |-> <<>>,name |-> <<>>,l |-> 32,live |-> FALSE,out |-> [name |-> <<>>, args |-> <<>>, ok |-> FALSE],desc |-> <<>>]),
    ([args |-> <<>>,name |-> <<>>,l |-> 33,live |-> FALSE,out |-> [name |-> <<>>, args |-> <<>>, ok |-> FALSE],desc |-> <<>>]),
    ([args |-> <<>>,name |-> <<>>,l |-> 34,live |-> FALSE,out |-> [name |-> <<>>, args |-> <<>>, ok |-> FALSE],desc |-> <<>>]),
    ([args |-> <<>>,name |-> <<>>,l |-> 35,live |-> FALSE,out |-> [name |-> <<>>, args |-> <<>>, ok |-> FALSE],desc |-> <<>>]),
    ([args |-> <<>>,name |-> <<>>,l |-> 36,live |-> FALSE,out |-> [name |-> <<>>, args |-> <<>>, ok |-> FALSE],desc |-> <<>>]),
    ([args |-> <<>>,name |-> <<>>,l |-> 37,live |-> FALSE,out |-> [name |-> <<>>, args |-> <<>>, ok |-> FALSE],desc |-> <<>>]),
    ([args |-> <<>>,name |-> <<>>,l |-> 38,live |-> FALSE,out |-> [name |-> <<>>, args |-> <<>>, ok |-> FALSE],desc |-> <<>>]),
    ([args |-> <<>>,name |-> <<>>,l |-> 39,live |-> FALSE,out |-> [name |-> <<>>, args |-> <<>>, ok |-> FALSE],desc |-> <<>>]),
    ([args |-> <<>>,name |-> <<>>,l |-> 40,live |-> FALSE,out |-> [name |-> <<>>, args |-> <<>>, ok |-> FALSE],desc |-> <<>>]),
    ([args |-> <<>>,name |-> <<>>,l |-> 41,live |-> FALSE,out |-> [name |-> <<>>, args |-> <<>>, ok |-> FALSE],desc |-> <<>>]),
    ([args |-> <<>>,name |-> <<>>,l |-> 42,live |-> FALSE,out |-> [name |-> <<>>, args |-> <<>>, ok |-> FALSE],desc |-> <<>>]),
    ([args |-> <<>>,name |-> <<>>,l |-> 43,live |-> FALSE,out |-> [name |-> <<>>, args |-> <<>>, ok |-> FALSE],desc |-> <<>>]),
    ([args |-> <<>>,name |-> <<>>,l |-> 44,live |-> FALSE,out |-> [name |-> <<>>, args |-> <<>>, ok |-> FALSE],desc |-> <<>>]),
    ([args |-> <<>>,name |-> <<>>,l |-> 45,live |-> FALSE,out |-> [name |-> <<>>, args |-> <<>>, ok |-> FALSE],desc |-> <<>>]),
    ([args |-> <<>>,name |-> <<>>,l |-> 46,live |-> FALSE,out |-> [name |-> <<>>, args |-> <<>>, ok |-> FALSE],desc |-> <<>>]),
    ([args |-> <<>>,name |-> <<>>,l |-> 47,live |-> FALSE,out |-> [name |-> <<>>, args |-> <<>>, ok |-> FALSE],desc |-> <<>>]),
    ([args |-> <<>>,name |-> <<>>,l |-> 48,live |-> FALSE,out |-> [name |-> <<>>, args |-> <<>>, ok |-> FALSE],desc |-> <<>>]),
    ([args |-> <<>>,name |-> <<>>,l |-> 49,live |-> FALSE,out |-> [name |-> <<>>, args |-> <<>>, ok |-> FALSE],desc |-> <<>>]),
    ([args |-> <<>>,name |-> <<>>,l |-> 50,live |-> FALSE,out |-> [name |-> <<>>, args |-> <<>>, ok |-> FALSE],desc |-> <<>>]),
    ([args |-> <<>>,name |-> <<>>,l |-> 51,live |-> FALSE,out |-> [name |-> <<>>, args |-> <<>>, ok |-> FALSE],desc |-> <<>>]),
    ([args |-> <<>>,name |-> <<>>,l |-> 52,live |-> FALSE,out |-> [name |-> <<>>, args |-> <<>>, ok |-> FALSE],desc |-> <<>>]),
    ([args |-> <<>>,name |-> <<>>,l |-> 53,live |-> FALSE,out |-> [name |-> <<>>, args |-> <<>>, ok |-> FALSE],desc |-> <<>>]),
    ([args |-> <<>>,name |-> <<>>,l |-> 54,live |-> FALSE,out |-> [name |-> <<>>, args |-> <<>>, ok |-> FALSE],desc |-> <<>>]),
    ([args |-> <<>>,name |-> <<>>,l |-> 55,live |-> FALSE,out |-> [name |-> <<>>, args |-> <<>>, ok |-> FALSE],desc |-> <<>>]),
    ([args |-> <<>>,name |-> <<>>,l |-> 56,live |-> FALSE,out |-> [name |-> <<>>, args |-> <<>>, ok |-> FALSE],desc |-> <<>>])
    >>
----


=============================================================================

---- CONFIG KeyvalTrace_TTrace_1790488931 ----
CONSTANTS
    Names = { }
    ArgLists = { }
    NewLists = { }

INVARIANT
    _inv

CHECK_DEADLOCK
    \* CHECK_DEADLOCK off because of PROPERTY or INVARIANT above.
    FALSE

INIT
    _init

NEXT
    _next

CONSTANT
    _TETrace <- _trace

ALIAS
    _expression
=============================================================================
\* Generated on Sun Sep 27 06:02:16 UTC 2026