SPECIFICATION Spec
CONSTANTS
  Alpha = {97, 44, 59}
  MaxLen = 4
  Delims <- McDelims
INVARIANTS Rejoin RestIsTail CursorOK TokensClean NoEmptyUnlessAllowed
PROPERTY ConsumeStep
CHECK_DEADLOCK FALSE
