SPECIFICATION LSpec
CONSTANTS
  N = 6
