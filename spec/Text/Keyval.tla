------------------------------- MODULE Keyval -------------------------------
\* Design model for the C17 statement on key-value procedures: a description
\* text that is rendered once, then repeatedly parsed and edited by
\* substitution (KeyvalTools::parseProcedure / changeKeyvals); the ghost state
\* is the (name, argument list) the text stands for.  Definitions:
\* KeyvalDefs.tla.
EXTENDS KeyvalDefs

CONSTANTS Names, ArgLists, NewLists      \* model values (sets of sequences)
VARIABLES live,     \* a description exists
          desc,     \* the description text
          name,     \* ghost: the name it was rendered from
          args,     \* ghost: the argument list it stands for
          out       \* result of the last call
vars == <<live, desc, name, args, out>>

Init == live = FALSE /\ desc = <<>> /\ name = <<>> /\ args = <<>> /\ out = Bad

Make(n, a) == /\ ~live /\ Domain(n, a)
              /\ live' = TRUE /\ desc' = Render(n, a) /\ name' = n /\ args' = a /\ out' = Bad
Drop       == live /\ live' = FALSE /\ desc' = <<>> /\ name' = <<>> /\ args' = <<>> /\ out' = Bad
Parse      == live /\ out' = ParseProc(desc) /\ UNCHANGED <<live, desc, name, args>>
Subst(w)   == /\ live /\ Domain(<<>>, w)
              /\ args' = Change(args, w) /\ desc' = Render(name, args') /\ out' = Bad /\ UNCHANGED <<live, name>>
Next == (\E n \in Names, a \in ArgLists : Make(n, a)) \/ Parse \/ (\E w \in NewLists : Subst(w)) \/ Drop
Spec == Init /\ [][Next]_vars

\* the property
RoundTrip   == live => LET P == ParseProc(desc) IN P.ok /\ P.name = name /\ P.args = args
ParseResult == out.ok => (out.name = name /\ out.args = args)
InDomain    == Domain(name, args)
\* substitution keeps the name, the keys and their order, and changes only named values
SubstExact  == [][(live /\ live') =>
                    /\ name' = name /\ DOMAIN args' = DOMAIN args
                    /\ \A i \in DOMAIN args :
                         /\ args'[i][1] = args[i][1]
                         /\ args'[i][2] # args[i][2] =>
                              \E w \in NewLists : args[i][1] \in KeysOf(w) /\ args'[i][2] = NewVal(w, args[i][1])]_vars
=============================================================================
