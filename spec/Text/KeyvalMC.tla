------------------------------ MODULE KeyvalMC ------------------------------
\* Model values of the Keyval design model and its lemma (sequences cannot be
\* written in a TLC configuration file).  f=102 g=103 a=97 b=98 c=99 x=120 y=121
EXTENDS Keyval, TLC
CONSTANT Big          \* FALSE: quick tier, TRUE: thorough tier
W(c) == <<c>>
McNames == IF Big THEN {<<>>, W(102), <<102, 103>>} ELSE {<<>>, W(102)}
McVals  == IF Big THEN {W(120), W(121), <<103, OPEN, CLOSE>>, <<103, OPEN, 97, EQ, 120, CLOSE>>,
                        <<103, OPEN, 97, EQ, 120, COMMA, 98, EQ, 121, CLOSE>>}
           ELSE {W(120), <<103, OPEN, CLOSE>>, <<103, OPEN, 97, EQ, 120, COMMA, 98, EQ, 121, CLOSE>>}
McKeys  == IF Big THEN {W(97), W(98), W(99)} ELSE {W(97), W(98)}
Pairs   == {<<k, v>> : k \in McKeys, v \in McVals}
Lists(n) == UNION {[1..k -> Pairs] : k \in 0..n}
McArgLists == {a \in Lists(2) : DistinctKeys(a)}
McNewLists == {a \in Lists(1) : TRUE} \cup (IF Big THEN {a \in Lists(2) : Len(a) = 2 /\ DistinctKeys(a) /\ a[1][2] = W(121)} ELSE {})
ASSUME KeyvalLemma(McNames, McArgLists, {a \in Lists(1) : TRUE} \cup {<<<<W(97), W(121)>>, <<W(99), <<103, OPEN, CLOSE>>>>>>})
\* what is outside the domain is not claimed canonical: stray text, blanks, duplicate keys
ASSUME ~Canonical(<<102, OPEN, 97, EQ, 120, CLOSE, 120>>)
ASSUME ~Canonical(<<102, OPEN, 97, EQ, 120, COMMA, 97, EQ, 121, CLOSE>>)
ASSUME ~Canonical(<<102, OPEN, EQ, CLOSE>>)
ASSUME ~Canonical(<<102, OPEN, 97, EQ, SPACE, 120, CLOSE>>)
ASSUME Canonical(<<102>>) /\ Canonical(<<>>) /\ Canonical(<<102, OPEN, CLOSE>>)
=============================================================================
