--------------------------- MODULE TokenizerTrace ---------------------------
\* Trace validation of StringTokenizer / NestedStringTokenizer histories
\* against the design model Tokenizer.tla.  Events (strings = ASCII codes):
\*   TokNew   s, d, solid, ae, r, toks        constructor + getTokens()
\*   NestNew  s, d, solid, r, toks            nested constructor ("(" / ")")
\*   TokNext  r, tok      TokHasMore v      TokRemaining v      TokGet i, tok
\*   TokUnparse v         TokRemoveEmpty toks
\* r = "ok" | "raise" (a bpp::Exception) | "raise_std" | "raise_other"; only
\* the first two can match an action.
EXTENDS Tokenizer, TraceLib

TReset == IsEvent("Reset") /\ Clear

\* an empty solid delimiter separates nothing: one token, or the constructor refuses
TTokNew ==
  /\ IsEvent("TokNew")
  /\ \/ /\ Ev.r = "ok"
        /\ Construct(Ev.s, Ev.d, Ev.solid, Ev.ae)
        /\ toks' = Ev.toks
     \/ /\ Ev.r = "raise" /\ Ev.solid /\ Ev.d = <<>>
        /\ Clear

\* nested tokeniser: balanced input -> tokens of the definition; unclosed
\* bracket -> must raise; closing bracket before its opening one -> not decided.
\* unparseRemainingTokens is documented as unsupported there (edited = TRUE).
TNestNew ==
  /\ IsEvent("NestNew")
  /\ LET c == BracketClass(Ev.s) IN
       /\ Ev.r \in {"ok", "raise"}
       /\ (c = "balanced" /\ ~(Ev.solid /\ Ev.d = <<>>)) => Ev.r = "ok"
       /\ (c = "balanced" /\ Ev.r = "ok") => Ev.toks = NestedTokens(Ev.s, Ev.d, Ev.solid)
       /\ c = "unclosed" => Ev.r = "raise"
  /\ IF Ev.r = "ok"
     THEN /\ live' = TRUE /\ src' = Ev.s /\ opt' = <<Ev.d, Ev.solid, FALSE>>
          /\ T' = [lead |-> <<>>, toks |-> Ev.toks, seps |-> <<>>]
          /\ toks' = Ev.toks /\ pos' = 0 /\ edited' = TRUE /\ out' = <<"ok">>
     ELSE Clear

TTokNext ==
  /\ IsEvent("TokNext")
  /\ NextToken
  /\ IF out'[1] = "ok" THEN Ev.r = "ok" /\ Ev.tok = out'[2] ELSE Ev.r = "raise"

TTokHasMore   == IsEvent("TokHasMore") /\ HasMore /\ Ev.r = "ok" /\ Ev.v = out'[2]
TTokRemaining == IsEvent("TokRemaining") /\ Remaining /\ Ev.r = "ok" /\ Ev.v = out'[2]
TTokGet       == IsEvent("TokGet") /\ GetToken(Ev.i + 1) /\ Ev.r = "ok" /\ Ev.tok = out'[2]
TTokUnparse   == /\ IsEvent("TokUnparse")
                 /\ Ev.r = "ok"
                 /\ IF edited THEN live /\ UNCHANGED vars
                    ELSE UnparseCall /\ Ev.v = out'[2]
TTokRemoveEmpty == IsEvent("TokRemoveEmpty") /\ RemoveEmpty /\ Ev.r = "ok" /\ Ev.toks = toks'

TraceNext == TReset \/ TTokNew \/ TNestNew \/ TTokNext \/ TTokHasMore \/ TTokRemaining \/ TTokGet
             \/ TTokUnparse \/ TTokRemoveEmpty
TraceInit == Init /\ l = 1
TraceSpec == TraceInit /\ [][TraceNext]_<<vars, l>>

\* invariants of the design model that make sense for both tokenisers
PlainClean == ~edited => TokensClean
=============================================================================
