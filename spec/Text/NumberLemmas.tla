---------------------------- MODULE NumberLemmas ----------------------------
\* Closed lemmas about NumberGrammar evaluated by TLC: the declarative grammar
\* and the left-to-right automaton accept the same strings (all strings up to
\* length N over a 7-letter alphabet that contains every syntactic class),
\* rendering an integer gives a strict integer with that value.
EXTENDS NumberGrammar, TLC
CONSTANTS N, R
ASSUME GrammarLemma({0, 1, MINUS, PLUS, DEC, SCI, OTHERC}, N)
ASSUME RenderLemma(-R, R)
ASSUME ValueLemma
VARIABLE x
Init == x = 0
Next == UNCHANGED x
Spec == Init /\ [][Next]_x
=============================================================================
