----------------------------- MODULE VarResolve -----------------------------
\* Design model of AttributesTools::resolveVariables as a rewriting loop, one
\* action per loop iteration, so that termination can be checked as a
\* liveness property (a resolution that chases an indirect cycle for ever is a
\* behaviour that never reaches "done").
\*
\* Algorithm (the intended one): for every entry in key order, repeat: find
\* the leftmost reference in the value; no closing character => raise;
\* otherwise replace it by the value of the variable it names, or by nothing
\* when that variable is undefined or is already being expanded (the entry
\* itself or a variable on the expansion stack: a cycle).  The stack records,
\* for every variable being expanded, how many characters of the value follow
\* its expansion; expansions that end before the leftmost reference are popped.
EXTENDS VarResolveDefs, TLC

CONSTANTS InitMaps        \* set of maps explored by TLC

VARIABLES m0,     \* ghost: the map given to the call
          m,      \* the map being rewritten
          todo,   \* keys still to process, in order
          cur,    \* key being processed
          val,    \* its value so far
          stack,  \* sequence of <<name, tail length>>
          pc
vars == <<m0, m, todo, cur, val, stack, pc>>

\* keys in increasing order (std::map order): shorter first, then by codes
RECURSIVE SeqLess(_, _)
SeqLess(a, b) == IF a = <<>> THEN b # <<>>
                 ELSE IF b = <<>> THEN FALSE
                 ELSE IF a[1] # b[1] THEN a[1] < b[1] ELSE SeqLess(Tail(a), Tail(b))
RECURSIVE SortKeys(_)
SortKeys(S) == IF S = {} THEN <<>>
               ELSE LET x == CHOOSE x \in S : \A y \in S \ {x} : SeqLess(x, y) IN <<x>> \o SortKeys(S \ {x})

Init == /\ m0 \in InitMaps /\ m = m0 /\ todo = SortKeys(DOMAIN m0)
        /\ cur = <<>> /\ val = <<>> /\ stack = <<>> /\ pc = "pick"

Pick == /\ pc = "pick"
        /\ IF todo = <<>>
           THEN pc' = "done" /\ UNCHANGED <<m0, m, todo, cur, val, stack>>
           ELSE /\ cur' = Head(todo) /\ todo' = Tail(todo) /\ val' = m[Head(todo)] /\ stack' = <<>>
                /\ pc' = "scan" /\ UNCHANGED <<m0, m>>

RECURSIVE PopClosed(_, _, _)
PopClosed(st, len, i1) == IF st # <<>> /\ len - st[Len(st)][2] < i1     \* expansion ends before the reference
                          THEN PopClosed(SubSeq(st, 1, Len(st) - 1), len, i1) ELSE st

Scan == /\ pc = "scan"
        /\ LET i1 == FirstRef(val, 1) IN
           IF i1 = 0
           THEN /\ m' = [m EXCEPT ![cur] = val] /\ pc' = "pick" /\ UNCHANGED <<m0, todo, cur, val, stack>>
           ELSE LET i2 == FirstClose(val, i1) IN
                IF i2 = 0
                THEN pc' = "raised" /\ UNCHANGED <<m0, m, todo, cur, val, stack>>
                ELSE LET st    == PopClosed(stack, Len(val), i1)
                         n     == SubSeq(val, i1 + 2, i2 - 1)
                         cyc   == n = cur \/ \E k \in DOMAIN st : st[k][1] = n
                         subst == n \in DOMAIN m /\ ~cyc
                         vv    == IF subst THEN m[n] ELSE <<>>
                     IN /\ val' = SubSeq(val, 1, i1 - 1) \o vv \o SubSeq(val, i2 + 1, Len(val))
                        /\ stack' = IF subst THEN Append(st, <<n, Len(val) - i2>>) ELSE st
                        /\ UNCHANGED <<m0, m, todo, cur, pc>>

Stutter == pc \in {"done", "raised"} /\ UNCHANGED vars
Next == Pick \/ Scan \/ Stutter
Spec == Init /\ [][Next]_vars /\ WF_vars(Pick \/ Scan)

\* the property
Terminates == <>(pc \in {"done", "raised"})
AtDone == pc = "done" => Outcome(m0, TRUE, m) /\ \A k \in DOMAIN m : ~HasRef(m[k])
AtRaise == pc = "raised" => Outcome(m0, FALSE, m)
KeysKept == DOMAIN m = DOMAIN m0
StackDistinct == \A i, j \in DOMAIN stack : i # j => stack[i][1] # stack[j][1]
StackBounded  == Len(stack) <= Cardinality(DOMAIN m0)
=============================================================================
