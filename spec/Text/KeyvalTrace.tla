----------------------------- MODULE KeyvalTrace -----------------------------
\* Trace validation of KeyvalTools (parseProcedure, changeKeyvals,
\* multipleKeyvals) and of the distribution description round trip
\* (BppODiscreteDistributionFormat write -> read) against Keyval.tla.
\* Events (strings = ASCII codes, argument lists = lists of [key, value]):
\*   KvMake   name, args, desc      the driver renders a description (starts a chain)
\*   KvParse  desc, r, name, args   parseProcedure into a fresh map
\*   KvChange desc, new, r, out     changeKeyvals
\*   KvMulti  desc, nested, r, args multipleKeyvals into a fresh map
\*   DistRT   fam, n, inner, text, r, fam2, n2, cats, cats2, probs, probs2, w, w2 (component weights of a mixture)
\*   ParamWrite comma, expect, text, r, r2, back    BppOParametrizableFormat::write, read back by multipleKeyvals
\* The ghost (name, args) follows the chain Make -> Change -> Change ...;
\* the model invariant RoundTrip is evaluated on the text the implementation
\* produced at every step.
EXTENDS Keyval, TraceLib

SetOf(s) == {s[i] : i \in DOMAIN s}
SameMap(logged, al) == Len(logged) = Len(al) /\ SetOf(logged) = SetOf(al)

TReset == IsEvent("Reset") /\ live' = FALSE /\ desc' = <<>> /\ name' = <<>> /\ args' = <<>> /\ out' = Bad

TKvMake ==
  /\ IsEvent("KvMake")
  /\ Domain(Ev.name, Ev.args) /\ Ev.desc = Render(Ev.name, Ev.args)
  /\ live' = TRUE /\ desc' = Ev.desc /\ name' = Ev.name /\ args' = Ev.args /\ out' = Bad

TKvParse ==
  /\ IsEvent("KvParse")
  /\ Ev.r \in {"ok", "raise"}
  /\ LET P == ParseProc(Ev.desc) IN
       /\ Canonical(Ev.desc) => (Ev.r = "ok" /\ Ev.name = P.name /\ SameMap(Ev.args, P.args))
       /\ (live /\ Ev.desc = desc) => (Ev.r = "ok" /\ Ev.name = name /\ SameMap(Ev.args, args))
  /\ UNCHANGED vars

TKvChange ==
  /\ IsEvent("KvChange")
  /\ Ev.r \in {"ok", "raise"}
  /\ LET P == ParseProc(Ev.desc) IN
       (Canonical(Ev.desc) /\ Domain(<<>>, Ev.new)) =>
          /\ Ev.r = "ok"
          /\ LET Q == ParseProc(Ev.out) IN Q.ok /\ Q.name = P.name /\ Q.args = Change(P.args, Ev.new)
  /\ IF live /\ Ev.desc = desc /\ Domain(<<>>, Ev.new)
     THEN /\ Ev.r = "ok"
          /\ args' = Change(args, Ev.new) /\ desc' = Ev.out /\ out' = Bad /\ UNCHANGED <<live, name>>
     ELSE UNCHANGED vars

TKvMulti ==
  /\ IsEvent("KvMulti")
  /\ Ev.r \in {"ok", "raise"}
  /\ CanonicalArgs(Ev.desc, Ev.nested) => (Ev.r = "ok" /\ SameMap(Ev.args, ParseArgs(Ev.desc).args))
  /\ UNCHANGED vars

\* distribution descriptions: the text is a procedure whose name is the
\* family, with the class count as argument n for the discretised families
\* and the nested descriptions as dist / dist1.. ; read back: same family,
\* same class count, same class values and probabilities.  Values are logged
\* as round(x * 10^6): the description language writes class values with six
\* decimals, so "the same" is decided on that grid, with DistTol units of
\* slack (-2147483647 = outside the 32-bit range, never equal).
DistTol == 2
Close(a, b) == a # -2147483647 /\ b # -2147483647 /\ a - b <= DistTol /\ b - a <= DistTol
Val(al, k) == al[CHOOSE i \in DOMAIN al : al[i][1] = k][2]
NFamilies == {"Gamma", "Gaussian", "Beta", "Exponential", "TruncExponential", "Uniform"}
TDistRT ==
  /\ IsEvent("DistRT")
  /\ LET P == ParseProc(Ev.text) IN
       /\ P.ok /\ P.name = Ev.fam /\ DistinctKeys(P.args)
       /\ Ev.famname \in NFamilies => (<<110>> \in KeysOf(P.args) /\ Val(P.args, <<110>>) = Ev.ndigits)
       /\ \A i \in DOMAIN Ev.inner :
            Ev.inner[i][1] \in KeysOf(P.args) /\ ParseProc(Val(P.args, Ev.inner[i][1])).name = Ev.inner[i][2]
  /\ Ev.r = "ok" /\ Ev.fam2 = Ev.fam /\ Ev.n2 = Ev.n
  /\ Len(Ev.cats) = Ev.n /\ Len(Ev.cats2) = Ev.n /\ Len(Ev.probs) = Ev.n /\ Len(Ev.probs2) = Ev.n
  /\ \A i \in 1..Ev.n : Close(Ev.cats2[i], Ev.cats[i]) /\ Close(Ev.probs2[i], Ev.probs[i])
  \* the weights of the components of a mixture (w = <<>> for the other families)
  /\ Len(Ev.w2) = Len(Ev.w) /\ \A i \in DOMAIN Ev.w : Close(Ev.w2[i], Ev.w[i])
  /\ UNCHANGED vars

\* BppOParametrizableFormat::write: "name=value,name=value" (a leading comma on request, parameters already
\* written left out, local aliases as ", alias=name"); the text must denote the expected list: the names
\* without namespace, in order, each value the same decimal as the parameter's value (k/8, logged as
\* micro-units), and the option parser must read the same pairs back.
NG == INSTANCE NumberGrammar
ArgOK(pair, ex) ==
  /\ pair[1] = ex[1]
  /\ IF ex[2] = "num"
     THEN LET c == NG!FromAscii(pair[2], 46, 101) IN NG!StrictNumber(c) /\ NG!CanonDec(c) = NG!CanonOfMicro(ex[3])
     ELSE pair[2] = ex[3]
TParamWrite ==
  /\ IsEvent("ParamWrite")
  /\ Ev.r = "ok" /\ Ev.r2 = "ok"
  /\ LET n    == Len(Ev.expect)
         body == IF Ev.comma /\ n > 0 THEN (IF Ev.text # <<>> /\ Ev.text[1] = COMMA THEN Tail(Ev.text) ELSE <<EQ>>) ELSE Ev.text
         A    == ParseArgs(body) IN
       /\ n = 0 => AllBlank(Ev.text)
       /\ n > 0 => /\ A.ok /\ Len(A.args) = n /\ \A i \in 1..n : ArgOK(A.args[i], Ev.expect[i])
                   /\ DistinctKeys(A.args)
                   /\ SetOf(Ev.back) = SetOf(A.args) /\ Len(Ev.back) = n
  /\ UNCHANGED vars

TraceNext == TParamWrite \/ TReset \/ TKvMake \/ TKvParse \/ TKvChange \/ TKvMulti \/ TDistRT
TraceInit == Init /\ l = 1
TraceSpec == TraceInit /\ [][TraceNext]_<<vars, l>>
=============================================================================
