------------------------------ MODULE TableDefs ------------------------------
\* C17, tables: "a table written as delimited text reads back with identical
\* shape, names and cells" for tables "up to 6x6 that occupy at least two text
\* lines, with unique names, row names only together with column names, and
\* separator-free non-blank cells".
\*
\* A table is a record [ncol, nrow, cols, rows, cells]: cols / rows are the
\* sequences of column / row names (<<>> = no names), cells is a sequence of
\* nrow rows of ncol cells; names and cells are sequences of ASCII codes.
\* RenderTable / ParseTable define the delimited text format; InQuantifier is
\* the set of tables the statement speaks about; RoundTrip is the property.
EXTENDS TokenizerDefs

NL == 10
IsBlankC(c) == c \in {32, 9, 10, 11, 12, 13}
BlankStr(s) == \A i \in DOMAIN s : IsBlankC(s[i])

RECURSIVE JoinSep(_, _)
JoinSep(ss, sep) == IF ss = <<>> THEN <<>>
                    ELSE IF Len(ss) = 1 THEN ss[1] ELSE ss[1] \o sep \o JoinSep(Tail(ss), sep)

Distinct(ns) == \A i, j \in DOMAIN ns : i # j => ns[i] # ns[j]

\* shape invariants of a table object
WellFormed(T) ==
  /\ T.ncol \in Nat /\ T.nrow \in Nat
  /\ Len(T.cells) = T.nrow /\ \A i \in DOMAIN T.cells : Len(T.cells[i]) = T.ncol
  /\ Len(T.cols) \in {0, T.ncol} /\ Len(T.rows) \in {0, T.nrow}
  /\ Distinct(T.cols) /\ Distinct(T.rows)

\* ------------------------------------------------------------------ writing
HeaderLine(T, sep, align) == (IF align /\ T.rows # <<>> THEN sep ELSE <<>>) \o JoinSep(T.cols, sep)
RowLine(T, sep, i) == (IF T.rows # <<>> THEN T.rows[i] \o sep ELSE <<>>) \o JoinSep(T.cells[i], sep)
RenderLines(T, sep, align) ==
  IF T.ncol = 0 THEN <<>>
  ELSE (IF T.cols # <<>> THEN <<HeaderLine(T, sep, align)>> ELSE <<>>) \o [i \in 1..T.nrow |-> RowLine(T, sep, i)]
RECURSIVE Terminated(_)
Terminated(ls) == IF ls = <<>> THEN <<>> ELSE Head(ls) \o <<NL>> \o Terminated(Tail(ls))
RenderTable(T, sep, align) == Terminated(RenderLines(T, sep, align))

\* ------------------------------------------------------------------ reading
RECURSIVE SplitLines(_, _, _)
SplitLines(t, i, cur) == IF i > Len(t) THEN (IF cur = <<>> THEN <<>> ELSE <<cur>>)
                         ELSE IF t[i] = NL THEN <<cur>> \o SplitLines(t, i + 1, <<>>)
                         ELSE SplitLines(t, i + 1, Append(cur, t[i]))
TextLines(t) == SelectSeq(SplitLines(t, 1, <<>>), LAMBDA ln : ~BlankStr(ln))       \* blank lines are skipped
Fields(ln, sep) == Tokenize(ln, sep, FALSE, TRUE).toks

NoTable == [ok |-> FALSE, ncol |-> 0, nrow |-> 0, cols |-> <<>>, rows |-> <<>>, cells |-> <<>>]
ParseTable(t, sep, header) ==
  LET L  == TextLines(t)
      F  == [i \in DOMAIN L |-> Fields(L[i], sep)] IN
  IF Len(L) < 2 THEN NoTable
  ELSE LET n1 == Len(F[1])  n2 == Len(F[2]) IN
       IF n1 = n2
       THEN LET first == IF header THEN 2 ELSE 1 IN
            IF \E i \in first..Len(L) : Len(F[i]) # n1 THEN NoTable
            ELSE [ok |-> TRUE, ncol |-> n1, nrow |-> Len(L) - first + 1,
                  cols |-> IF header THEN F[1] ELSE <<>>, rows |-> <<>>,
                  cells |-> [i \in 1..(Len(L) - first + 1) |-> F[i + first - 1]]]
       ELSE IF n1 = n2 - 1
       THEN IF \E i \in 2..Len(L) : Len(F[i]) # n1 + 1 THEN NoTable
            ELSE [ok |-> TRUE, ncol |-> n1, nrow |-> Len(L) - 1, cols |-> F[1],
                  rows |-> [i \in 1..(Len(L) - 1) |-> F[i + 1][1]],
                  cells |-> [i \in 1..(Len(L) - 1) |-> Tail(F[i + 1])]]
       ELSE NoTable

Same(P, T) == P.ok /\ P.ncol = T.ncol /\ P.nrow = T.nrow /\ P.cols = T.cols /\ P.rows = T.rows /\ P.cells = T.cells

\* ------------------------------------------------------------------ the quantifier
GoodText(s, sep) == s # <<>> /\ ~BlankStr(s) /\ NL \notin Range(s) /\ Range(s) \cap Range(sep) = {}
InQuantifier(T, sep) ==
  /\ WellFormed(T) /\ T.ncol >= 1 /\ sep # <<>>
  /\ (T.rows # <<>> => T.cols # <<>>)
  /\ T.nrow + (IF T.cols # <<>> THEN 1 ELSE 0) >= 2
  /\ \A i \in DOMAIN T.cols : GoodText(T.cols[i], sep)
  /\ \A i \in DOMAIN T.rows : GoodText(T.rows[i], sep)
  /\ \A i \in DOMAIN T.cells : \A j \in DOMAIN T.cells[i] : GoodText(T.cells[i][j], sep)

\* the property: what is written reads back identically
RoundTrip(T, sep, align) ==
  InQuantifier(T, sep) => Same(ParseTable(RenderTable(T, sep, align), sep, T.cols # <<>>), T)

\* ------------------------------------------------------------------ the object, call by call
\* Sem(op, a, T): what one public call of DataTable does to table T.
\*   refuse = set of documented exception classes whose condition holds ("*" = a refusal that the
\*            header does not name: any library exception); empty = the call succeeds
\*   post   = the table afterwards (= T for queries),  val = the returned value (<<>> if none)
\* A refused call changes nothing.  Indices are 0-based as in the C++ interface.  Where several
\* refusal conditions hold the header does not say which one is reported: any of them is accepted.
IOOB  == "IndexOutOfBoundsException"
DIM   == "DimensionException"
NOROW == "NoTableRowNamesException"
NOCOL == "NoTableColumnNamesException"
NNF   == "TableNameNotFoundException"
RNF   == "TableRowNameNotFoundException"
CNF   == "TableColumnNameNotFoundException"
DUPR  == "DuplicatedTableRowNameException"
DUPC  == "DuplicatedTableColumnNameException"
HASR  == "TableRowNamesException"
HASC  == "TableColumnNamesException"
\* a thrown class x satisfies the documented class c (a subclass is its base class)
Satisfies(x, c) == c = "*" \/ x = c \/ (c = NNF /\ x \in {RNF, CNF})

R(set, post, val) == [refuse |-> set, post |-> post, val |-> val]
If(c, x) == IF c THEN {x} ELSE {}
Pos(ns, n) == CHOOSE k \in DOMAIN ns : ns[k] = n            \* 1-based position of a name
Without(q, k) == SubSeq(q, 1, k - 1) \o SubSeq(q, k + 1, Len(q))
Column(T, j) == [i \in 1..T.nrow |-> T.cells[i][j]]
NewTable(nr, nc, cols) == [ncol |-> nc, nrow |-> nr, cols |-> cols, rows |-> <<>>,
                           cells |-> [i \in 1..nr |-> [j \in 1..nc |-> <<>>]]]
DelRow(T, i) == [T EXCEPT !.cells = Without(@, i), !.nrow = @ - 1, !.rows = IF @ = <<>> THEN <<>> ELSE Without(@, i)]
DelCol(T, j) == [T EXCEPT !.cells = [i \in 1..T.nrow |-> Without(T.cells[i], j)], !.ncol = @ - 1,
                          !.cols = IF @ = <<>> THEN <<>> ELSE Without(@, j)]
SetCell(T, i, j, v) == [T EXCEPT !.cells[i][j] = v]

\* the four ways to address a cell: refusal set and (1-based) coordinates
AddrII(T, a) == [ref |-> If(a.j >= T.ncol \/ a.i >= T.nrow, IOOB), i |-> a.i + 1, j |-> a.j + 1]
AddrNN(T, a) == [ref |-> If(T.rows = <<>>, NOROW) \cup If(T.cols = <<>>, NOCOL)
                         \cup If((T.rows # <<>> /\ a.rn \notin Range(T.rows)) \/ (T.cols # <<>> /\ a.cn \notin Range(T.cols)), NNF),
                 i |-> IF a.rn \in Range(T.rows) THEN Pos(T.rows, a.rn) ELSE 0,
                 j |-> IF a.cn \in Range(T.cols) THEN Pos(T.cols, a.cn) ELSE 0]
AddrNI(T, a) == [ref |-> If(T.rows = <<>>, NOROW) \cup If(a.j >= T.ncol, IOOB) \cup If(T.rows # <<>> /\ a.rn \notin Range(T.rows), NNF),
                 i |-> IF a.rn \in Range(T.rows) THEN Pos(T.rows, a.rn) ELSE 0, j |-> a.j + 1]
AddrIN(T, a) == [ref |-> If(T.cols = <<>>, NOCOL) \cup If(a.i >= T.nrow, IOOB) \cup If(T.cols # <<>> /\ a.cn \notin Range(T.cols), NNF),
                 i |-> a.i + 1, j |-> IF a.cn \in Range(T.cols) THEN Pos(T.cols, a.cn) ELSE 0]
GetAt(T, ad) == IF ad.ref # {} THEN R(ad.ref, T, <<>>) ELSE R({}, T, T.cells[ad.i][ad.j])
SetAt(T, ad, v) == IF ad.ref # {} THEN R(ad.ref, T, <<>>) ELSE R({}, SetCell(T, ad.i, ad.j, v), <<>>)

Sem(op, a, T) ==
  CASE op = "new_rc" -> R({}, NewTable(a.nr, a.nc, <<>>), <<>>)
    [] op = "new_c" -> R({}, NewTable(0, a.nc, <<>>), <<>>)
    [] op = "new_rnames" -> R(If(~Distinct(a.names), DUPC), NewTable(a.nr, Len(a.names), a.names), <<>>)
    [] op = "new_names" -> R(If(~Distinct(a.names), DUPC), NewTable(0, Len(a.names), a.names), <<>>)
    [] op = "copy" -> R({}, T, <<>>)                         \* T2(T); T = T2
    [] op = "assign" -> R({}, a.t, <<>>)                     \* T = other table
    [] op = "get_ii" -> GetAt(T, AddrII(T, a))
    [] op = "set_ii" -> SetAt(T, AddrII(T, a), a.v)
    [] op = "get_nn" -> GetAt(T, AddrNN(T, a))
    [] op = "set_nn" -> SetAt(T, AddrNN(T, a), a.v)
    [] op = "get_ni" -> GetAt(T, AddrNI(T, a))
    [] op = "set_ni" -> SetAt(T, AddrNI(T, a), a.v)
    [] op = "get_in" -> GetAt(T, AddrIN(T, a))
    [] op = "set_in" -> SetAt(T, AddrIN(T, a), a.v)
    [] op = "ncols" -> R({}, T, T.ncol)
    [] op = "nrows" -> R({}, T, T.nrow)
    \* columns
    [] op = "setColNames" -> R(If(Len(a.names) # T.ncol, DIM) \cup If(~Distinct(a.names), DUPC), [T EXCEPT !.cols = a.names], <<>>)
    [] op = "getColNames" -> R(If(T.cols = <<>>, NOCOL), T, T.cols)
    [] op = "getColName" -> R(If(T.cols = <<>>, NOCOL) \cup If(a.i >= T.ncol, IOOB), T, IF a.i < Len(T.cols) THEN T.cols[a.i + 1] ELSE <<>>)
    [] op = "hasColNames" -> R({}, T, T.cols # <<>>)
    [] op = "getCol_i" -> R(If(a.i >= T.ncol, IOOB), T, IF a.i < T.ncol THEN Column(T, a.i + 1) ELSE <<>>)
    [] op = "getCol_n" -> R(If(T.cols = <<>>, NOCOL) \cup If(T.cols # <<>> /\ a.name \notin Range(T.cols), CNF), T,
                            IF a.name \in Range(T.cols) THEN Column(T, Pos(T.cols, a.name)) ELSE <<>>)
    [] op = "hasCol" -> R({}, T, a.name \in Range(T.cols))
    [] op = "delCol_i" -> R(If(a.i >= T.ncol, IOOB), IF a.i < T.ncol THEN DelCol(T, a.i + 1) ELSE T, <<>>)
    [] op = "delCol_n" -> R(If(T.cols = <<>>, NOCOL) \cup If(T.cols # <<>> /\ a.name \notin Range(T.cols), CNF),
                            IF a.name \in Range(T.cols) THEN DelCol(T, Pos(T.cols, a.name)) ELSE T, <<>>)
    [] op = "addCol" -> R(If(T.cols # <<>>, HASC) \cup If(Len(a.vec) # T.nrow, DIM),
                          IF Len(a.vec) = T.nrow THEN [T EXCEPT !.cells = [i \in 1..T.nrow |-> Append(T.cells[i], a.vec[i])], !.ncol = @ + 1] ELSE T, <<>>)
    [] op = "addCol_n" -> R(If(T.cols = <<>> /\ T.ncol # 0, NOCOL) \cup If(Len(a.vec) # T.nrow, DIM) \cup If(a.name \in Range(T.cols), DUPC),
                            IF Len(a.vec) = T.nrow
                            THEN [T EXCEPT !.cells = [i \in 1..T.nrow |-> Append(T.cells[i], a.vec[i])], !.ncol = @ + 1, !.cols = Append(@, a.name)]
                            ELSE T, <<>>)
    \* rows
    [] op = "setRowNames" -> R(If(Len(a.names) # T.nrow, DIM) \cup If(~Distinct(a.names), DUPR), [T EXCEPT !.rows = a.names], <<>>)
    [] op = "setRowName" -> R(If(T.rows = <<>>, NOROW) \cup If(a.i >= T.nrow, DIM) \cup If(a.name \in Range(T.rows), DUPR),
                              IF a.i < Len(T.rows) THEN [T EXCEPT !.rows[a.i + 1] = a.name] ELSE T, <<>>)
    [] op = "getRowNames" -> R(If(T.rows = <<>>, NOROW), T, T.rows)
    [] op = "getRowName" -> R(If(T.rows = <<>>, NOROW) \cup If(a.i >= T.nrow, IOOB), T, IF a.i < Len(T.rows) THEN T.rows[a.i + 1] ELSE <<>>)
    [] op = "hasRowNames" -> R({}, T, T.rows # <<>>)
    [] op = "hasRow" -> R({}, T, a.name \in Range(T.rows))
    [] op = "getRow_i" -> R(If(a.i >= T.nrow, IOOB), T, IF a.i < T.nrow THEN T.cells[a.i + 1] ELSE <<>>)
    [] op = "getRow_n" -> R(If(T.rows = <<>>, NOROW) \cup If(T.rows # <<>> /\ a.name \notin Range(T.rows), RNF), T,
                            IF a.name \in Range(T.rows) THEN T.cells[Pos(T.rows, a.name)] ELSE <<>>)
    [] op = "delRow_i" -> R(If(a.i >= T.nrow, IOOB), IF a.i < T.nrow THEN DelRow(T, a.i + 1) ELSE T, <<>>)
    [] op = "delRow_n" -> R(If(T.rows = <<>>, NOROW) \cup If(T.rows # <<>> /\ a.name \notin Range(T.rows), RNF),
                            IF a.name \in Range(T.rows) THEN DelRow(T, Pos(T.rows, a.name)) ELSE T, <<>>)
    [] op = "addRow" -> R(If(T.rows # <<>>, HASR) \cup If(Len(a.vec) # T.ncol, DIM),
                          [T EXCEPT !.cells = Append(@, a.vec), !.nrow = @ + 1], <<>>)
    [] op = "addRow_n" -> R(If(T.rows = <<>> /\ T.nrow # 0, NOROW) \cup If(Len(a.vec) # T.ncol, DIM) \cup If(a.name \in Range(T.rows), DUPR),
                            [T EXCEPT !.cells = Append(@, a.vec), !.nrow = @ + 1, !.rows = Append(@, a.name)], <<>>)
    [] op = "setRow" -> R(If(a.i >= T.nrow \/ Len(a.vec) # T.ncol, "*"),
                          IF a.i < T.nrow THEN [T EXCEPT !.cells[a.i + 1] = a.vec] ELSE T, <<>>)
    \* text
    [] op = "write" -> R({}, T, RenderTable(T, a.sep, a.align))

\* DataTable::read(text, sep, header, rowNames): a new table.  decided = FALSE: fewer than two
\* non-blank lines, the documentation does not say what is built.
ReadSem(text, sep, header, rn) ==
  LET L == TextLines(text)  P == ParseTable(text, sep, header) IN
  IF Len(L) < 2 THEN [decided |-> FALSE, refuse |-> {}, post |-> NoTable]
  ELSE IF ~P.ok
       THEN \* a line with the wrong number of fields: DimensionException, unless a duplicated name is met first
            LET F  == [i \in DOMAIN L |-> Fields(L[i], sep)]
                n1 == Len(F[1])  n2 == Len(F[2])
                firsts == [i \in 1..(Len(L) - 1) |-> IF F[i + 1] = <<>> THEN <<>> ELSE F[i + 1][1]] IN
            [decided |-> TRUE, post |-> NoTable,
             refuse |-> {DIM} \cup If((n1 = n2 - 1 \/ (n1 = n2 /\ header)) /\ ~Distinct(F[1]), DUPC)
                              \cup If(n1 = n2 - 1 /\ ~Distinct(firsts), DUPR)]
  ELSE LET T0 == [ncol |-> P.ncol, nrow |-> P.nrow, cols |-> P.cols, rows |-> P.rows, cells |-> P.cells]
           n1 == Len(Fields(L[1], sep))
           bad0 == If(~Distinct(P.cols), DUPC) \cup If(~Distinct(P.rows), DUPR) IN
       IF bad0 # {} THEN [decided |-> TRUE, refuse |-> bad0, post |-> NoTable]
       ELSE IF rn < 0 THEN [decided |-> TRUE, refuse |-> {}, post |-> T0]
       ELSE IF rn >= n1 THEN [decided |-> TRUE, refuse |-> {IOOB}, post |-> NoTable]
       ELSE LET names == Column(T0, rn + 1) IN
            IF ~Distinct(names) THEN [decided |-> TRUE, refuse |-> {DUPR}, post |-> NoTable]
            ELSE [decided |-> TRUE, refuse |-> {}, post |-> [DelCol(T0, rn + 1) EXCEPT !.rows = names]]
=============================================================================
