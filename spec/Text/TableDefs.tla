------------------------------ MODULE TableDefs ------------------------------
\* C17, tables: "a table written as delimited text reads back with identical
\* shape, names and cells" for tables "up to 6x6 that occupy at least two text
\* lines, with unique names, row names only together with column names, and
\* separator-free non-blank cells".
\*
\* A table is a record [ncol, nrow, cols, rows, cells]: cols / rows are the
\* sequences of column / row names (<<>> = no names), cells is a sequence of
\* nrow rows of ncol cells; names and cells are sequences of ASCII codes.
\* RenderTable / ParseTable define the delimited text format; InQuantifier is
\* the set of tables the statement speaks about; RoundTrip is the property.
EXTENDS TokenizerDefs

NL == 10
IsBlankC(c) == c \in {32, 9, 10, 11, 12, 13}
BlankStr(s) == \A i \in DOMAIN s : IsBlankC(s[i])

RECURSIVE JoinSep(_, _)
JoinSep(ss, sep) == IF ss = <<>> THEN <<>>
                    ELSE IF Len(ss) = 1 THEN ss[1] ELSE ss[1] \o sep \o JoinSep(Tail(ss), sep)

Distinct(ns) == \A i, j \in DOMAIN ns : i # j => ns[i] # ns[j]

\* shape invariants of a table object
WellFormed(T) ==
  /\ T.ncol \in Nat /\ T.nrow \in Nat
  /\ Len(T.cells) = T.nrow /\ \A i \in DOMAIN T.cells : Len(T.cells[i]) = T.ncol
  /\ Len(T.cols) \in {0, T.ncol} /\ Len(T.rows) \in {0, T.nrow}
  /\ Distinct(T.cols) /\ Distinct(T.rows)

\* ------------------------------------------------------------------ writing
HeaderLine(T, sep, align) == (IF align /\ T.rows # <<>> THEN sep ELSE <<>>) \o JoinSep(T.cols, sep)
RowLine(T, sep, i) == (IF T.rows # <<>> THEN T.rows[i] \o sep ELSE <<>>) \o JoinSep(T.cells[i], sep)
RenderLines(T, sep, align) ==
  IF T.ncol = 0 THEN <<>>
  ELSE (IF T.cols # <<>> THEN <<HeaderLine(T, sep, align)>> ELSE <<>>) \o [i \in 1..T.nrow |-> RowLine(T, sep, i)]
RECURSIVE Terminated(_)
Terminated(ls) == IF ls = <<>> THEN <<>> ELSE Head(ls) \o <<NL>> \o Terminated(Tail(ls))
RenderTable(T, sep, align) == Terminated(RenderLines(T, sep, align))

\* ------------------------------------------------------------------ reading
RECURSIVE SplitLines(_, _, _)
SplitLines(t, i, cur) == IF i > Len(t) THEN (IF cur = <<>> THEN <<>> ELSE <<cur>>)
                         ELSE IF t[i] = NL THEN <<cur>> \o SplitLines(t, i + 1, <<>>)
                         ELSE SplitLines(t, i + 1, Append(cur, t[i]))
TextLines(t) == SelectSeq(SplitLines(t, 1, <<>>), LAMBDA ln : ~BlankStr(ln))       \* blank lines are skipped
Fields(ln, sep) == Tokenize(ln, sep, FALSE, TRUE).toks

NoTable == [ok |-> FALSE, ncol |-> 0, nrow |-> 0, cols |-> <<>>, rows |-> <<>>, cells |-> <<>>]
ParseTable(t, sep, header) ==
  LET L  == TextLines(t)
      F  == [i \in DOMAIN L |-> Fields(L[i], sep)] IN
  IF Len(L) < 2 THEN NoTable
  ELSE LET n1 == Len(F[1])  n2 == Len(F[2]) IN
       IF n1 = n2
       THEN LET first == IF header THEN 2 ELSE 1 IN
            IF \E i \in first..Len(L) : Len(F[i]) # n1 THEN NoTable
            ELSE [ok |-> TRUE, ncol |-> n1, nrow |-> Len(L) - first + 1,
                  cols |-> IF header THEN F[1] ELSE <<>>, rows |-> <<>>,
                  cells |-> [i \in 1..(Len(L) - first + 1) |-> F[i + first - 1]]]
       ELSE IF n1 = n2 - 1
       THEN IF \E i \in 2..Len(L) : Len(F[i]) # n1 + 1 THEN NoTable
            ELSE [ok |-> TRUE, ncol |-> n1, nrow |-> Len(L) - 1, cols |-> F[1],
                  rows |-> [i \in 1..(Len(L) - 1) |-> F[i + 1][1]],
                  cells |-> [i \in 1..(Len(L) - 1) |-> Tail(F[i + 1])]]
       ELSE NoTable

Same(P, T) == P.ok /\ P.ncol = T.ncol /\ P.nrow = T.nrow /\ P.cols = T.cols /\ P.rows = T.rows /\ P.cells = T.cells

\* ------------------------------------------------------------------ the quantifier
GoodText(s, sep) == s # <<>> /\ ~BlankStr(s) /\ NL \notin Range(s) /\ Range(s) \cap Range(sep) = {}
InQuantifier(T, sep) ==
  /\ WellFormed(T) /\ T.ncol >= 1 /\ sep # <<>>
  /\ (T.rows # <<>> => T.cols # <<>>)
  /\ T.nrow + (IF T.cols # <<>> THEN 1 ELSE 0) >= 2
  /\ \A i \in DOMAIN T.cols : GoodText(T.cols[i], sep)
  /\ \A i \in DOMAIN T.rows : GoodText(T.rows[i], sep)
  /\ \A i \in DOMAIN T.cells : \A j \in DOMAIN T.cells[i] : GoodText(T.cells[i][j], sep)

\* the property: what is written reads back identically
RoundTrip(T, sep, align) ==
  InQuantifier(T, sep) => Same(ParseTable(RenderTable(T, sep, align), sep, T.cols # <<>>), T)
=============================================================================
