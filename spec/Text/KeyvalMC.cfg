SPECIFICATION Spec
CONSTANTS
  Big = FALSE
  Names <- McNames
  ArgLists <- McArgLists
  NewLists <- McNewLists
INVARIANTS RoundTrip ParseResult InDomain
PROPERTY SubstExact
CHECK_DEADLOCK FALSE
