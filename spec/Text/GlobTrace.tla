------------------------------ MODULE GlobTrace ------------------------------
\* Trace validation of the three wildcard matchers against Glob.tla.
\*   GlobNames names            the parameter names held by the map / vector / ParameterList
\*   Glob      which, p, v      one call; v = positions (0-based) of the names returned, in order
\* which = "map" (ApplicationTools::matchingParameters on a map), "vec" (on a
\* vector), "plist" (ParameterList::getMatchingParameterNames).
EXTENDS Glob, TraceLib

VARIABLE names
vars == <<names>>

TReset     == IsEvent("Reset") /\ names' = <<>>
TGlobNames == IsEvent("GlobNames") /\ names' = Ev.names

Hits(p) == SelectSeq([i \in DOMAIN names |-> i - 1], LAMBDA k : MatchNFA(p, names[k + 1]))
TGlob == /\ IsEvent("Glob")
         /\ Ev.which \in {"map", "vec", "plist"}
         /\ Ev.r = "ok" /\ Ev.v = Hits(Ev.p)
         /\ UNCHANGED names

TraceNext == TReset \/ TGlobNames \/ TGlob
TraceInit == names = <<>> /\ l = 1
TraceSpec == TraceInit /\ [][TraceNext]_<<vars, l>>
=============================================================================
