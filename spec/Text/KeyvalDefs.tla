----------------------------- MODULE KeyvalDefs -----------------------------
\* C17, key-value procedures: "a key-value procedure rendered from a name and
\* an argument map parses back to the same name and map, substituting
\* arguments changes exactly the named ones".  Definitions and lemma; the
\* design model is Keyval.tla.
\*
\* Strings are sequences of ASCII codes.  An argument list is a sequence of
\* <<key, value>> pairs with distinct keys (the order is the order of
\* appearance in the text; the parsed map is compared as a set of pairs).
\*
\* Render, ParseProc (result record [ok, name, args]), Change and the domain
\* of the round trip (Domain): names and keys are plain words, values are
\* plain words or procedures nested one level.  Canonical(s): s is exactly the
\* rendering of what it parses to, so the statement decides the result of
\* parsing s.  Lemma: KeyvalLemma (checked in KeyvalMC.tla).
EXTENDS TokenizerDefs

COMMA == 44
EQ    == 61
SPACE == 32
IsBlank(c) == c \in {32, 9, 10, 11, 12, 13}
IsPlain(c) == ~IsBlank(c) /\ c \notin {COMMA, EQ, OPEN, CLOSE}
PlainStr(s) == \A i \in DOMAIN s : IsPlain(s[i])
IsWord(s)   == s # <<>> /\ PlainStr(s)
AllBlank(s) == \A i \in DOMAIN s : IsBlank(s[i])

RECURSIVE TrimL(_)
TrimL(s) == IF s # <<>> /\ IsBlank(s[1]) THEN TrimL(Tail(s)) ELSE s
RECURSIVE TrimR(_)
TrimR(s) == IF s # <<>> /\ IsBlank(s[Len(s)]) THEN TrimR(SubSeq(s, 1, Len(s) - 1)) ELSE s
Trim(s) == TrimL(TrimR(s))

RECURSIVE IdxFrom(_, _, _)     \* first index >= i with s[i] = c (0 if none)
IdxFrom(s, c, i) == IF i > Len(s) THEN 0 ELSE IF s[i] = c THEN i ELSE IdxFrom(s, c, i + 1)
FirstIdx(s, c) == IdxFrom(s, c, 1)
RECURSIVE IdxBack(_, _, _)     \* last index <= i with s[i] = c (0 if none)
IdxBack(s, c, i) == IF i < 1 THEN 0 ELSE IF s[i] = c THEN i ELSE IdxBack(s, c, i - 1)
LastIdx(s, c) == IdxBack(s, c, Len(s))

\* ------------------------------------------------------------------ rendering
RECURSIVE JoinWith(_, _)
JoinWith(ss, sep) == IF ss = <<>> THEN <<>>
                     ELSE IF Len(ss) = 1 THEN ss[1] ELSE ss[1] \o sep \o JoinWith(Tail(ss), sep)
RenderArgs(args)   == JoinWith([i \in DOMAIN args |-> args[i][1] \o <<EQ>> \o args[i][2]], <<COMMA>>)
Render(name, args) == name \o <<OPEN>> \o RenderArgs(args) \o <<CLOSE>>

\* ------------------------------------------------------------------ parsing
Bad == [ok |-> FALSE, name |-> <<>>, args |-> <<>>]

\* "k=v,k=v" with commas inside balanced brackets not separating
ParseArgs(inner) ==
  IF ~Balanced(inner) THEN Bad
  ELSE LET ts == NestedTokens(inner, <<COMMA>>, FALSE) IN
       IF \E i \in DOMAIN ts : FirstIdx(ts[i], EQ) = 0 THEN Bad
       ELSE [ok |-> TRUE, name |-> <<>>,
             args |-> [i \in DOMAIN ts |-> LET e == FirstIdx(ts[i], EQ) IN
                          <<Trim(SubSeq(ts[i], 1, e - 1)), Trim(SubSeq(ts[i], e + 1, Len(ts[i])))>>]]

\* "name(k=v,...)" ; a text without brackets is a procedure without arguments
ParseProc(s) ==
  LET b == FirstIdx(s, OPEN)  e == LastIdx(s, CLOSE) IN
  IF b = 0 /\ e = 0 THEN [ok |-> TRUE, name |-> s, args |-> <<>>]
  ELSE IF b = 0 \/ e = 0 \/ e < b \/ ~AllBlank(SubSeq(s, e + 1, Len(s))) THEN Bad
  ELSE LET A == ParseArgs(SubSeq(s, b + 1, e - 1)) IN
       IF ~A.ok THEN Bad ELSE [ok |-> TRUE, name |-> TrimL(SubSeq(s, 1, b - 1)), args |-> A.args]

\* ------------------------------------------------------------------ domain
KeysOf(args)     == {args[i][1] : i \in DOMAIN args}
DistinctKeys(args) == \A i, j \in DOMAIN args : i # j => args[i][1] # args[j][1]
FlatArgs(args)   == DistinctKeys(args) /\ \A i \in DOMAIN args : IsWord(args[i][1]) /\ IsWord(args[i][2])
\* a value: a plain word or a procedure (one level) with plain-word arguments
IsValue(v) == \/ IsWord(v)
              \/ LET Q == ParseProc(v) IN
                   /\ OPEN \in Range(v) /\ Q.ok /\ IsWord(Q.name) /\ FlatArgs(Q.args) /\ Render(Q.name, Q.args) = v
Domain(name, args) == /\ PlainStr(name) /\ DistinctKeys(args)
                      /\ \A i \in DOMAIN args : IsWord(args[i][1]) /\ IsValue(args[i][2])
\* s is the rendering of an element of the domain
Canonical(s) == LET P == ParseProc(s) IN
                  P.ok /\ Domain(P.name, P.args)
                  /\ (IF OPEN \in Range(s) THEN Render(P.name, P.args) = s ELSE PlainStr(s))
CanonicalArgs(inner, nested) ==
  LET A == ParseArgs(inner) IN
    /\ A.ok /\ Domain(<<>>, A.args) /\ RenderArgs(A.args) = inner
    /\ (~nested => \A i \in DOMAIN A.args : IsWord(A.args[i][2]))

\* ------------------------------------------------------------------ substitution
\* new: a sequence of <<key, value>> pairs with distinct keys
NewVal(new, k) == new[CHOOSE i \in DOMAIN new : new[i][1] = k][2]
Change(args, new) == [i \in DOMAIN args |->
                        IF args[i][1] \in KeysOf(new) THEN <<args[i][1], NewVal(new, args[i][1])>> ELSE args[i]]

\* ------------------------------------------------------------------ lemmas
KeyvalLemma(names, argss, news) ==
  \A n \in names : \A a \in argss :
     Domain(n, a) =>
       LET s == Render(n, a)  P == ParseProc(s) IN
       /\ P.ok /\ P.name = n /\ P.args = a /\ Canonical(s)
       /\ \A w \in news :
            LET c == Change(a, w)  Q == ParseProc(Render(n, c)) IN
            /\ Q.ok /\ Q.name = n /\ Len(Q.args) = Len(a)
            /\ \A i \in DOMAIN a : /\ Q.args[i][1] = a[i][1]
                                   /\ Q.args[i][2] = (IF a[i][1] \in KeysOf(w) THEN NewVal(w, a[i][1]) ELSE a[i][2])
=============================================================================
