--------------------------- MODULE VarResolveTrace ---------------------------
\* Trace validation of AttributesTools::resolveVariables against
\* VarResolveDefs.tla.  One event per call:
\*   VarResolve  m = [[name, value]...] before, r, res = the map afterwards
\* A call that does not return is a "Hang" event, which no action matches.
\* The ghost `last` holds the result of the previous successful call so that a
\* second call on it must leave it unchanged (it is a fixed point).
EXTENDS VarResolveDefs, TraceLib

VARIABLE last
vars == <<last>>

TReset == IsEvent("Reset") /\ last' = <<>>

TVarResolve ==
  /\ IsEvent("VarResolve")
  /\ Ev.r \in {"ok", "raise"}
  /\ Outcome(MapOf(Ev.m), Ev.r = "ok", MapOf(Ev.res))
  /\ (Ev.r = "ok" /\ Ev.m = last) => Ev.res = last
  /\ last' = IF Ev.r = "ok" THEN Ev.res ELSE <<>>

TraceNext == TReset \/ TVarResolve
TraceInit == last = <<>> /\ l = 1
TraceSpec == TraceInit /\ [][TraceNext]_<<vars, l>>
=============================================================================
