SPECIFICATION TraceSpec
CONSTANTS
  Names = {}
  ArgLists = {}
  NewLists = {}
INVARIANTS RoundTrip InDomain
POSTCONDITION TraceAccepted
CHECK_DEADLOCK FALSE
