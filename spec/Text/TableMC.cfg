SPECIFICATION Spec
CONSTANTS
  MaxCol = 2
  MaxRow = 2
  CellVals <- McCells
  NameVals <- McNames
  Seps <- McSeps
INVARIANTS Shape RoundTripInv ReadBack
PROPERTY RaiseKeeps
CHECK_DEADLOCK FALSE
