SPECIFICATION Spec
CONSTANTS
  MaxCol = 2
  MaxRow = 2
  CellVals <- McCells
  NameVals <- McNames
  Seps <- McSeps
CONSTRAINT Bounded
INVARIANTS Shape RoundTripInv ReadBackInv QueriesPure
PROPERTY RaiseKeeps
CHECK_DEADLOCK FALSE
