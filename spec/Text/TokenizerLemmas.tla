--------------------------- MODULE TokenizerLemmas ---------------------------
\* Closed lemmas about the definitions of TokenizerDefs.tla, evaluated by TLC on
\* every string up to length N over "a" (97), "," (44), ";" (59) and the brackets.
EXTENDS TokenizerDefs, TLC
CONSTANT N
ASSUME TokenizeLemma({97, 44, 59}, N, {<<44>>, <<44, 59>>, <<59, 44>>, <<44, 44>>})
ASSUME NestedLemma({97, 44, OPEN, CLOSE}, N, {<<44>>, <<44, 59>>, <<44, 44>>})
ASSUME NestedLemma({97, 44, 59, OPEN, CLOSE}, N - 1, {<<44, 59>>})
VARIABLE x
LSpec == x = 0 /\ [][UNCHANGED x]_x
=============================================================================
