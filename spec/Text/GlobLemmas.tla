------------------------------ MODULE GlobLemmas ------------------------------
\* The three formulations of the glob semantics agree (a = 97, b = 98).
EXTENDS Glob, TLC
CONSTANTS NP, NN
ASSUME GlobLemma({97, 98}, NP, NN)
ASSUME CutsLemma({97, 98}, 4, 3)
ASSUME FactsLemma({97, 98}, 3)
VARIABLE x
Init == x = 0
Next == UNCHANGED x
Spec == Init /\ [][Next]_x
=============================================================================
