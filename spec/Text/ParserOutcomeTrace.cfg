SPECIFICATION TraceSpec
CONSTANTS
  Entries = {}
INVARIANTS PendingOK
POSTCONDITION TraceAccepted
CHECK_DEADLOCK FALSE
