SPECIFICATION TraceSpec
CONSTANTS
  Alpha = {}
  MaxLen = 0
  Delims = {}
INVARIANTS Rejoin RestIsTail CursorOK PlainClean
POSTCONDITION TraceAccepted
CHECK_DEADLOCK FALSE
