---------------------------- MODULE TokenizerDefs ----------------------------
\* C17, tokenisers: "tokenising and re-joining with the recorded separators
\* reproduces the input, and nested tokenising never splits inside balanced
\* brackets".  Definitions and their lemmas; the design model of the tokeniser
\* object is Tokenizer.tla.
\*
\* Strings are sequences of character codes (ASCII); OPEN / CLOSE are
\* the bracket codes of the nested tokeniser.  A delimiter argument is the
\* sequence of codes of the string passed to the constructor: in the default
\* mode every character of it is a delimiter, in "solid" mode the whole string
\* is one delimiter.
\*
\* Tokenize / Unparse / NestedTokens are written as left-to-right scans;
\* TokenizeLemma and NestedLemma state the structural facts that make them the
\* right definitions (checked by TLC in TokenizerLemmas.tla on every string up
\* to a length bound).
EXTENDS Integers, Sequences, FiniteSets

OPEN  == 40      \* "("  (characters are logged as their ASCII codes)
CLOSE == 41      \* ")"

Range(f) == {f[i] : i \in DOMAIN f}

RECURSIVE Concat(_)
Concat(ss) == IF ss = <<>> THEN <<>> ELSE Head(ss) \o Concat(Tail(ss))

IsSuffix(t, s) == Len(t) <= Len(s) /\ SubSeq(s, Len(s) - Len(t) + 1, Len(s)) = t
Occurs(d, s)   == \E i \in 1..(Len(s) - Len(d) + 1) : SubSeq(s, i, i + Len(d) - 1) = d

\* ------------------------------------------------------------------ scans
RECURSIVE SkipD(_, _, _)      \* first index >= i that is not a delimiter (Len+1 if none)
SkipD(s, i, D) == IF i > Len(s) \/ s[i] \notin D THEN i ELSE SkipD(s, i + 1, D)
RECURSIVE SkipT(_, _, _)      \* first index >= i that is a delimiter (Len+1 if none)
SkipT(s, i, D) == IF i > Len(s) \/ s[i] \in D THEN i ELSE SkipT(s, i + 1, D)

At(s, d, i) == i + Len(d) - 1 <= Len(s) /\ SubSeq(s, i, i + Len(d) - 1) = d
RECURSIVE Find(_, _, _)       \* first index >= i where d occurs (0 if none); d non-empty
Find(s, d, i) == IF i + Len(d) - 1 > Len(s) THEN 0 ELSE IF At(s, d, i) THEN i ELSE Find(s, d, i + 1)
RECURSIVE SkipRep(_, _, _)    \* skip repeated copies of d starting at i
SkipRep(s, d, i) == IF At(s, d, i) THEN SkipRep(s, d, i + Len(d)) ELSE i

\* A tokenisation: lead = what precedes the first token, toks = the tokens,
\* seps[i] = the recorded separator that follows toks[i] (Len(seps) is
\* Len(toks) or Len(toks) - 1).
RECURSIVE TokNS(_, _, _, _)
TokNS(s, i, D, ae) ==
  LET j   == SkipT(s, i, D)
      tok == SubSeq(s, i, j - 1) IN
  IF j > Len(s) THEN [toks |-> <<tok>>, seps |-> <<>>]
  ELSE LET k   == IF ae THEN j + 1 ELSE SkipD(s, j, D)
           sep == SubSeq(s, j, k - 1) IN
       IF ~ae /\ k > Len(s) THEN [toks |-> <<tok>>, seps |-> <<sep>>]
       ELSE LET r == TokNS(s, k, D, ae) IN [toks |-> <<tok>> \o r.toks, seps |-> <<sep>> \o r.seps]

\* default mode: the leading run of delimiters is skipped (with or without
\* empty tokens), then tokens and separators alternate; with empty tokens
\* allowed every delimiter character is a separator of its own.
TokenizeNS(s, D, ae) ==
  LET i == SkipD(s, 1, D) IN
  IF i > Len(s) THEN [lead |-> s, toks |-> <<>>, seps |-> <<>>]
  ELSE LET r == TokNS(s, i, D, ae) IN [lead |-> SubSeq(s, 1, i - 1), toks |-> r.toks, seps |-> r.seps]

RECURSIVE TokS(_, _, _, _)
TokS(s, i, d, ae) ==
  LET j == Find(s, d, i) IN
  IF j = 0 THEN [toks |-> <<SubSeq(s, i, Len(s))>>, seps |-> <<>>]
  ELSE LET k == IF ae THEN j + Len(d) ELSE SkipRep(s, d, j + Len(d))
           r == TokS(s, k, d, ae) IN
       [toks |-> <<SubSeq(s, i, j - 1)>> \o r.toks, seps |-> <<SubSeq(s, j, k - 1)>> \o r.seps]

\* solid mode: split at each occurrence of d (repetitions merged unless empty
\* tokens are allowed); there is always a first and a last token.  An empty
\* d separates nothing.
TokenizeS(s, d, ae) ==
  IF d = <<>> THEN [lead |-> <<>>, toks |-> <<s>>, seps |-> <<>>]
  ELSE LET r == TokS(s, 1, d, ae) IN [lead |-> <<>>, toks |-> r.toks, seps |-> r.seps]

Tokenize(s, d, solid, ae) == IF solid THEN TokenizeS(s, d, ae) ELSE TokenizeNS(s, Range(d), ae)

\* re-joining from cursor position pos (number of tokens already consumed)
RECURSIVE Join(_, _, _)
Join(toks, seps, i) == IF i > Len(toks) THEN <<>>
                       ELSE toks[i] \o (IF i <= Len(seps) THEN seps[i] ELSE <<>>) \o Join(toks, seps, i + 1)
Unparse(T, pos) == (IF pos = 0 THEN T.lead ELSE <<>>) \o Join(T.toks, T.seps, pos + 1)

\* ------------------------------------------------------------------ nested
RECURSIVE DepthAt(_, _)       \* bracket depth after the first i characters
DepthAt(s, i) == IF i = 0 THEN 0
                 ELSE DepthAt(s, i - 1) + (IF s[i] = OPEN THEN 1 ELSE IF s[i] = CLOSE THEN -1 ELSE 0)
NeverNegative(s) == \A i \in 0..Len(s) : DepthAt(s, i) >= 0
Bump(dep, c) == dep + (IF c = OPEN THEN 1 ELSE IF c = CLOSE THEN -1 ELSE 0)
RECURSIVE ScanDepth(_, _, _)  \* final depth, or -1 as soon as a prefix has more closing than opening brackets
ScanDepth(s, i, d) == IF d < 0 THEN -1 ELSE IF i > Len(s) THEN d ELSE ScanDepth(s, i + 1, Bump(d, s[i]))
Balanced(s) == ScanDepth(s, 1, 0) = 0
Unclosed(s) == ScanDepth(s, 1, 0) > 0
\* the one-pass scan is the prefix-depth definition
DepthLemmaFor(s) == /\ Balanced(s) = (NeverNegative(s) /\ DepthAt(s, Len(s)) = 0)
                    /\ Unclosed(s) = (NeverNegative(s) /\ DepthAt(s, Len(s)) > 0)
\* "balanced" -> tokens below ; "unclosed" -> must raise ; "stray" (a closing
\* bracket before its opening one) -> not decided by the statement
BracketClass(s) == IF Balanced(s) THEN "balanced" ELSE IF Unclosed(s) THEN "unclosed" ELSE "stray"

Flush(cur, keepEmpty) == IF cur = <<>> /\ ~keepEmpty THEN <<>> ELSE <<cur>>

RECURSIVE NTokNS(_, _, _, _, _)
NTokNS(s, i, D, dep, cur) ==
  IF i > Len(s) THEN Flush(cur, FALSE)
  ELSE IF s[i] \in D /\ dep = 0 THEN Flush(cur, FALSE) \o NTokNS(s, i + 1, D, 0, <<>>)
  ELSE NTokNS(s, i + 1, D, Bump(dep, s[i]), Append(cur, s[i]))

RECURSIVE NTokS(_, _, _, _, _)
NTokS(s, i, d, dep, cur) ==
  IF i > Len(s) THEN <<cur>>
  ELSE IF dep = 0 /\ At(s, d, i) THEN <<cur>> \o NTokS(s, i + Len(d), d, 0, <<>>)
  ELSE NTokS(s, i + 1, d, Bump(dep, s[i]), Append(cur, s[i]))

\* tokens of a balanced string: split only at delimiters at bracket depth 0
NestedTokens(s, d, solid) ==
  IF solid THEN (IF d = <<>> THEN <<s>> ELSE NTokS(s, 1, d, 0, <<>>))
  ELSE NTokNS(s, 1, Range(d), 0, <<>>)

\* ------------------------------------------------------------------ lemmas
RECURSIVE Strings(_, _)
Strings(A, n) == IF n = 0 THEN {<<>>}
                 ELSE LET S == Strings(A, n - 1) IN S \cup {Append(s, c) : s \in S, c \in A}

\* structural characterisation of Tokenize: it re-joins to the input, tokens
\* are free of delimiters, separators are made of delimiters only, empty
\* tokens only where the options allow them, and re-joining after k tokens
\* gives the part of the input that starts at token k+1.
TokenizeOK(s, d, solid, ae) ==
  LET T == Tokenize(s, d, solid, ae)  n == Len(T.toks) IN
  /\ Unparse(T, 0) = s
  /\ Len(T.seps) \in {n, n - 1} \cap Nat
  /\ \A k \in 0..n : IsSuffix(Unparse(T, k), s)
  /\ \A k \in 1..n : Unparse(T, k - 1) = (IF k = 1 THEN T.lead ELSE <<>>) \o T.toks[k]
                                          \o (IF k <= Len(T.seps) THEN T.seps[k] ELSE <<>>) \o Unparse(T, k)
  /\ IF solid
     THEN /\ d # <<>> => \A k \in 1..n : ~Occurs(d, T.toks[k])
          /\ \A k \in DOMAIN T.seps : T.seps[k] # <<>> /\ (ae => T.seps[k] = d)
                                        /\ Len(T.seps[k]) % Len(d) = 0
          /\ n >= 1 /\ Len(T.seps) = n - 1 /\ T.lead = <<>>
     ELSE /\ \A k \in 1..n : Range(T.toks[k]) \cap Range(d) = {}
          /\ \A k \in DOMAIN T.seps : T.seps[k] # <<>> /\ Range(T.seps[k]) \subseteq Range(d)
                                        /\ (ae => Len(T.seps[k]) = 1)
          /\ Range(T.lead) \subseteq Range(d)
          /\ ~ae => \A k \in 1..n : T.toks[k] # <<>>
          /\ ae => Len(T.seps) = n - 1 \/ n = 0

TokenizeLemma(A, n, delims) ==
  \A s \in Strings(A, n) : \A d \in delims : \A solid, ae \in BOOLEAN : TokenizeOK(s, d, solid, ae)

\* nested tokens of a balanced string: every token is balanced, no token has
\* a delimiter at its own depth 0, and the tokens are the input minus depth-0
\* delimiters, in order
RECURSIVE DropTop(_, _, _, _)    \* s without the default-mode delimiters at depth 0
DropTop(s, i, D, dep) == IF i > Len(s) THEN <<>>
                         ELSE IF s[i] \in D /\ dep = 0 THEN DropTop(s, i + 1, D, dep)
                         ELSE <<s[i]>> \o DropTop(s, i + 1, D, Bump(dep, s[i]))
TopDelimFree(t, D) == \A i \in DOMAIN t : t[i] \in D => DepthAt(t, i - 1) > 0

NestedOK(s, d) ==
  Balanced(s) =>
    LET ts == NestedTokens(s, d, FALSE) IN
    /\ \A k \in DOMAIN ts : Balanced(ts[k]) /\ ts[k] # <<>> /\ TopDelimFree(ts[k], Range(d))
    /\ Concat(ts) = DropTop(s, 1, Range(d), 0)
    \* without brackets the nested tokeniser is the plain one
    /\ (OPEN \notin Range(s) /\ CLOSE \notin Range(s)) => ts = Tokenize(s, d, FALSE, FALSE).toks

NestedSolidOK(s, d) ==
  (Balanced(s) /\ d # <<>>) =>
    LET ts == NestedTokens(s, d, TRUE) IN
    /\ \A k \in DOMAIN ts : Balanced(ts[k])
    /\ (OPEN \notin Range(s) /\ CLOSE \notin Range(s)) => ts = Tokenize(s, d, TRUE, TRUE).toks

NestedLemma(A, n, delims) ==
  \A s \in Strings(A, n) : DepthLemmaFor(s) /\ \A d \in delims : NestedOK(s, d) /\ NestedSolidOK(s, d)
=============================================================================
