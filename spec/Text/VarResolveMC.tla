---------------------------- MODULE VarResolveMC ----------------------------
\* Model values: every map over the names a, b, c (each defined or not) whose
\* values come from a small set containing literals, references (also to the
\* undefined d), double references and ill-formed texts.  a=97 b=98 c=99 d=100 x=120
EXTENDS VarResolve
CONSTANT Big
R(n) == <<DOLLAR, OPENV, n, CLOSEV>>
McVals == {<<>>, <<120>>, R(97), R(98), R(99), R(100), <<120>> \o R(98), R(98) \o R(99), R(99) \o <<120>> \o R(99),
           <<DOLLAR, OPENV, 98>>, <<DOLLAR>>}
          \cup (IF Big THEN {R(97) \o R(98), <<OPENV, 120, CLOSEV>>, <<DOLLAR>> \o R(99), <<DOLLAR, OPENV>> \o R(98) \o <<CLOSEV>>,
                             <<120>> \o R(97) \o <<120>>} ELSE {})
McNames == {<<97>>, <<98>>, <<99>>}
McMaps == UNION {[D -> McVals] : D \in SUBSET McNames}
=============================================================================
