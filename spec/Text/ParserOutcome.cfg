SPECIFICATION Spec
CONSTANTS
  Entries = {"a", "b"}
CONSTRAINT Bound
INVARIANTS TypeOK
PROPERTY EveryCallEnds
CHECK_DEADLOCK FALSE
