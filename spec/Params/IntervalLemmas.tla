--------------------------- MODULE IntervalLemmas ---------------------------
\* Closed lemmas of the interval algebra, evaluated by TLC over every interval
\* (pair of intervals) on a K-point grid.  The last two ASSUMEs show that the
\* lemmas are not vacuous: they are refuted for the operators transcribed from
\* the code as it was found (intersection at equal bounds, emptiness of a
\* half-open degenerate interval, inclusion that ignores the open/closed ends).
EXTENDS Interval, TLC
CONSTANT K
ASSUME LemInter(K, Inter)
ASSUME LemEmpty(K, IsEmpty)
ASSUME LemEmptyInter(K)
ASSUME LemIncludes(K)
ASSUME LemNearest(K)
ASSUME LemLimit(K)
ASSUME LemInterAlgebra(K)
ASSUME LemSame(K)
ASSUME LemSub(K, SubI)
ASSUME LemCmp(K)
ASSUME ~LemInter(K, InterOld)
ASSUME ~LemEmpty(K, IsEmptyOld)
ASSUME ~LemSub(K, SubOld)
VARIABLE x
Init == x = 0
Next == UNCHANGED x
Spec == Init /\ [][Next]_x
=============================================================================
