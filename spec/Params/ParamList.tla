------------------------------ MODULE ParamList ------------------------------
\* Parameter lists of bpp-core (src/Bpp/Numeric/ParameterList.{h,cpp}) and the
\* owning object that forwards to one (AbstractParametrizable.h).
\*
\* list[L] is the sequence of parameter *objects* of list L: object identity
\* distinguishes share (same object) from clone (fresh object).  One action per
\* public member; the C02 statement is written as invariants / action
\* properties over the pre-state, the post-state and the ghost `last'`
\* (operation, arguments, outcome, returned value).
\*
\* Every action that creates objects takes the new identifiers as an argument
\* (`news`): the design model supplies the smallest unused ones, the trace
\* specification supplies the identifiers read back from the implementation,
\* and the action requires them to be fresh - which is what "a copy is
\* independent of its source" means operationally.
\*
\* Parameters inside lists have the default zero precision (C02 quantifier).
EXTENDS Params

CONSTANTS LIds,     \* design model: list identifiers
          NameIds,  \* design model: names
          DVals,    \* design model: value codes
          DCons,    \* design model: constraints (None is always added)
          DKinds,   \* design model: kinds of parameters (0 plain, 1 auto-correcting)
          MaxLen    \* design model: bound on the length of a list

VARIABLES list,     \* list[L] : sequence of object ids (DOMAIN list = live lists)
          dupOk     \* lists in which setParameter(i, .) created a repeated name (outside the statement)

lvars == <<pvars, list, dupOk>>
Lists == DOMAIN list

PNF  == "raise:ParameterNotFoundException"
PEX  == "raise:ParameterException"
IOOB == "raise:IndexOutOfBoundsException"

\* ---------------------------------------------------------------- helpers
ObjsOf(s)   == {s[i] : i \in DOMAIN s}
Inj(s)      == \A i, j \in DOMAIN s : i # j => s[i] # s[j]
IdxOf(s, x) == CHOOSE i \in DOMAIN s : s[i] = x
NameAt(L, i) == name[list[L][i]]
NamesOf(L)   == {NameAt(L, i) : i \in DOMAIN list[L]}
HasN(L, n)   == n \in NamesOf(L)
UniqueIn(ls, nm, L) == \A i, j \in DOMAIN ls[L] : i # j => nm[ls[L][i]] # nm[ls[L][j]]
Unique(L)    == UniqueIn(list, name, L)
PosN(L, n)   == CHOOSE i \in DOMAIN list[L] : NameAt(L, i) = n /\ \A j \in 1..(i - 1) : NameAt(L, j) # n
ObjN(L, n)   == list[L][PosN(L, n)]
Remove(s, D) == LET keep == {i \in DOMAIN s : i \notin D}
                    F[i \in 0..Len(s)] == IF i = 0 THEN <<>> ELSE IF i \in keep THEN Append(F[i - 1], s[i]) ELSE F[i - 1]
                IN F[Len(s)]
Filter(s, T(_)) == SelectSeq(s, T)
Fresh(news) == Inj(news) /\ ObjsOf(news) \cap Live = {}
\* extend f on the new objects: news[i] takes g[i]
Ext(f, news, g) == [x \in DOMAIN f \cup ObjsOf(news) |-> IF x \in DOMAIN f THEN f[x] ELSE g[IdxOf(news, x)]]
\* clone the objects srcs[i] into news[i] on top of an updated value function V; kinds[i] is the kind of clone i
Clone(V, srcs, news, kinds) ==
  /\ val'  = Ext(V, news, [i \in DOMAIN news |-> V[srcs[i]]])
  /\ con'  = Ext(con, news, [i \in DOMAIN news |-> con[srcs[i]]])
  /\ prec' = Ext(prec, news, [i \in DOMAIN news |-> prec[srcs[i]]])
  /\ name' = Ext(name, news, [i \in DOMAIN news |-> name[srcs[i]]])
  /\ auto' = Ext(auto, news, kinds)
KindsOf(srcs) == [i \in DOMAIN srcs |-> auto[srcs[i]]]
KeepDup == dupOk' = {X \in dupOk \cap DOMAIN list' : ~UniqueIn(list', name', X)}
DoneL(op, out, a, ret) == last' = [op |-> op, out |-> out, a |-> a, ret |-> ret]
SameL == UNCHANGED lvars
SetList(L, s) == list' = [list EXCEPT ![L] = s]
PutList(R, s) == list' = Put(list, R, s)

\* value an object ends with when v is written through its virtual setter (precision 0)
Written(t, v) == IF auto[t] = 1 /\ con[t] # None THEN AcceptedLimit(con[t], v) ELSE v
Refused(t, v) == auto[t] = 0 /\ Rejects(t, v)

\* ---------------------------------------------------------------- creation / destruction of lists
LNew(L) == /\ L \notin Lists /\ PutList(L, <<>>) /\ UNCHANGED pvars /\ KeepDup
           /\ DoneL("LNew", "ok", [L |-> L], <<>>)
LDrop(L) == /\ L \in Lists /\ list' = [X \in Lists \ {L} |-> list[X]] /\ UNCHANGED pvars /\ KeepDup
            /\ DoneL("LDrop", "ok", [L |-> L], <<>>)
LReset(L) == /\ L \in Lists /\ SetList(L, <<>>) /\ UNCHANGED pvars /\ KeepDup
             /\ DoneL("LReset", "ok", [L |-> L], <<>>)

\* copy construction (R fresh) / assignment (R live): deep, element by element
LCopy(L, R, news) ==
  /\ L \in Lists /\ Fresh(news) /\ Len(news) = Len(list[L])
  /\ Clone(val, list[L], news, KindsOf(list[L]))
  /\ PutList(R, news)
  /\ dupOk' = {X \in (dupOk \ {R}) \cup (IF L \in dupOk THEN {R} ELSE {}) : ~UniqueIn(list', name', X)}
  /\ DoneL(IF R \in Lists THEN "LAssign" ELSE "LCopy", "ok", [L |-> L, R |-> R], <<>>)

\* ---------------------------------------------------------------- adding
\* addParameter(const Parameter&) / addParameter(Parameter*): refused when the name is present
LAdd(L, n, v, c, au, news) ==
  /\ L \in Lists /\ Unique(L)
  /\ IF HasN(L, n)
     THEN SameL /\ DoneL("LAdd", PEX, [L |-> L, n |-> n], <<>>)
     ELSE /\ Fresh(news) /\ Len(news) = 1
          /\ val' = Put(val, news[1], v) /\ con' = Put(con, news[1], c) /\ prec' = Put(prec, news[1], 0)
          /\ auto' = Put(auto, news[1], au) /\ name' = Put(name, news[1], n)
          /\ SetList(L, Append(list[L], news[1])) /\ KeepDup
          /\ DoneL("LAdd", "ok", [L |-> L, n |-> n], <<>>)

\* shareParameter(shared_ptr): value update when the name is present, else the very object is appended
LShare(L, o) ==
  /\ L \in Lists /\ Unique(L) /\ o \in Live
  /\ LET a == [L |-> L, o |-> o] IN
     IF HasN(L, name[o])
     THEN LET t == ObjN(L, name[o]) IN
          /\ \/ Refused(t, val[o]) /\ UNCHANGED pvars /\ DoneL("LShare", CE, a, <<>>)
             \/ ~Refused(t, val[o]) /\ val' = [val EXCEPT ![t] = Written(t, val[o])]
                /\ UNCHANGED <<con, prec, auto, name>> /\ DoneL("LShare", "ok", a, <<>>)
          /\ UNCHANGED <<list, dupOk>>
     ELSE /\ SetList(L, Append(list[L], o)) /\ UNCHANGED pvars /\ KeepDup
          /\ DoneL("LShare", "ok", a, <<>>)

\* includeParameters / shareParameters / addParameters: one entry of M after the other.
\* k entries are processed; the call raises at entry k+1 (k < Len) or ends (k = Len).
\* mode: "include" (update or clone), "share" (update or same object), "add" (clone, refused when present)
SeqHits(L, M, k)  == {j \in 1..k : HasN(L, NameAt(M, j))}
SeqNewIdx(L, M, k) == SelectSeq([j \in 1..k |-> j], LAMBDA j : ~HasN(L, NameAt(M, j)))
SeqVal(L, M, k) ==
  [o \in Live |-> IF \E j \in SeqHits(L, M, k) : ObjN(L, NameAt(M, j)) = o
                  THEN LET j == CHOOSE j \in SeqHits(L, M, k) : ObjN(L, NameAt(M, j)) = o IN Written(o, val[list[M][j]])
                  ELSE val[o]]
SeqStops(L, M, j, mode) ==      \* entry j makes the call raise
  IF mode = "add" THEN HasN(L, NameAt(M, j))
  ELSE HasN(L, NameAt(M, j)) /\ Refused(ObjN(L, NameAt(M, j)), val[list[M][j]])
SeqPrefix(L, M, mode) ==        \* number of entries processed before the first one that raises
  LET S == {j \in DOMAIN list[M] : SeqStops(L, M, j, mode)} IN
  IF S = {} THEN Len(list[M]) ELSE (CHOOSE j \in S : \A i \in S : j <= i) - 1
SeqEffect(L, M, k, mode, news) ==
  LET idx  == SeqNewIdx(L, M, k)
      srcs == [i \in DOMAIN idx |-> list[M][idx[i]]]
      V    == IF mode = "add" THEN val ELSE SeqVal(L, M, k) IN
  IF mode = "share"
  THEN /\ val' = V /\ UNCHANGED <<con, prec, auto, name>> /\ news = <<>>
       /\ SetList(L, list[L] \o srcs) /\ KeepDup
  ELSE /\ Fresh(news) /\ Len(news) = Len(idx)
       /\ Clone(V, srcs, news, KindsOf(srcs))
       /\ SetList(L, list[L] \o news) /\ KeepDup
LSeq(L, M, mode, news) ==
  /\ L \in Lists /\ M \in Lists /\ L # M /\ Unique(L) /\ Unique(M)
  /\ LET k  == SeqPrefix(L, M, mode)
         op == CASE mode = "include" -> "LInclude" [] mode = "share" -> "LShareAll" [] OTHER -> "LAddAll"
         a  == [L |-> L, M |-> M] IN
     IF k = Len(list[M])
     THEN SeqEffect(L, M, k, mode, news) /\ DoneL(op, "ok", a, <<>>)
     ELSE /\ DoneL(op, IF mode = "add" THEN PEX ELSE CE, a, <<>>)
          /\ \/ SeqEffect(L, M, k, mode, news)          \* entries before the offending one were processed
             \/ SameL /\ news = <<>>                     \* or nothing was

\* ---------------------------------------------------------------- values
\* setParameterValue(name, v): the entry's own (virtual) setter
LSetValue(L, n, v) ==
  /\ L \in Lists /\ Unique(L)
  /\ LET a == [L |-> L, n |-> n, v |-> v] IN
     IF ~HasN(L, n) THEN SameL /\ DoneL("LSetValue", PNF, a, <<>>)
     ELSE LET t == ObjN(L, n) IN
          /\ \/ Refused(t, v) /\ UNCHANGED pvars /\ DoneL("LSetValue", CE, a, <<>>)
             \/ ~Refused(t, v) /\ val' = [val EXCEPT ![t] = Written(t, v)]
                /\ UNCHANGED <<con, prec, auto, name>> /\ DoneL("LSetValue", "ok", a, <<>>)
          /\ UNCHANGED <<list, dupOk>>

\* parameter(name).setConstraint(c) / removeConstraint()   (owner: setConstraint(name, c))
LSetConstraint(L, n, c) ==
  /\ L \in Lists /\ Unique(L)
  /\ LET a == [L |-> L, n |-> n, c |-> c] IN
     IF ~HasN(L, n) THEN SameL /\ DoneL("LSetConstraint", PNF, a, <<>>)
     ELSE LET t == ObjN(L, n) IN
          /\ IF c # None /\ ~Accepts(c, val[t])
             THEN UNCHANGED pvars /\ DoneL("LSetConstraint", CE, a, <<>>)
             ELSE con' = [con EXCEPT ![t] = c] /\ UNCHANGED <<val, prec, auto, name>> /\ DoneL("LSetConstraint", "ok", a, <<>>)
          /\ UNCHANGED <<list, dupOk>>

\* bulk value updates from M: validate every matching entry, then apply (two passes in the code, one action here:
\* nothing can interleave in a sequential library, atomicity is the action property BulkAtomic)
Hits(L, M)      == {j \in DOMAIN list[M] : HasN(L, NameAt(M, j))}
Tgt(L, M, j)    == ObjN(L, NameAt(M, j))
BulkRejected(L, M) == \E j \in Hits(L, M) : Rejects(Tgt(L, M, j), val[list[M][j]])
BulkVal(L, M)   == [o \in Live |-> IF \E j \in Hits(L, M) : Tgt(L, M, j) = o
                                   THEN val[list[M][CHOOSE j \in Hits(L, M) : Tgt(L, M, j) = o]] ELSE val[o]]
Differs(L, M)   == SelectSeq([j \in DOMAIN list[M] |-> j], LAMBDA j : j \in Hits(L, M) /\ val[Tgt(L, M, j)] # val[list[M][j]])
Missing(L, M)   == \E i \in DOMAIN list[L] : ~HasN(M, NameAt(L, i))      \* setAll*: a name of L that M lacks

\* kind: "set" setParametersValues, "all" setAllParametersValues, "match" matchParametersValues, "test" testParametersValues
LBulk(L, M, kind) ==
  /\ L \in Lists /\ M \in Lists /\ Unique(L) /\ Unique(M)
  /\ LET op == CASE kind = "set" -> "LSetValues" [] kind = "all" -> "LSetAllValues" [] kind = "match" -> "LMatchValues" [] OTHER -> "LTest"
         a  == [L |-> L, M |-> M]
         d  == Differs(L, M)
         ret == IF kind = "match" THEN <<IF d # <<>> THEN 1 ELSE 0, [i \in DOMAIN d |-> d[i] - 1]>>
                ELSE IF kind = "test" THEN <<IF d # <<>> THEN 1 ELSE 0>> ELSE <<>> IN
     \/ kind = "all" /\ Missing(L, M) /\ SameL /\ DoneL(op, PNF, a, <<>>)
     \/ BulkRejected(L, M) /\ SameL /\ DoneL(op, CE, a, <<>>)
     \/ /\ ~(kind = "all" /\ Missing(L, M)) /\ ~BulkRejected(L, M)
        /\ val' = (IF kind = "test" THEN val ELSE BulkVal(L, M))
        /\ UNCHANGED <<con, prec, auto, name, list, dupOk>>
        /\ DoneL(op, "ok", a, ret)

\* whole-parameter assignment from M (value, constraint, precision; names are equal): setParameters (every name of M
\* must exist in L), matchParameters (unknown names skipped), setAllParameters (every name of L must exist in M).
\* One entry after the other; a missing name raises after the earlier entries were assigned.
WholeOrder(L, M, kind) == IF kind = "all" THEN [i \in DOMAIN list[L] |-> <<list[L][i], NameAt(L, i), HasN(M, NameAt(L, i))>>]
                          ELSE [j \in DOMAIN list[M] |-> <<list[M][j], NameAt(M, j), HasN(L, NameAt(M, j))>>]
WholePrefix(L, M, kind) ==
  LET w == WholeOrder(L, M, kind)
      S == {i \in DOMAIN w : ~w[i][3]} IN
  IF kind = "match" \/ S = {} THEN Len(w) ELSE (CHOOSE i \in S : \A j \in S : i <= j) - 1
WholeEffect(L, M, kind, k) ==
  LET w == WholeOrder(L, M, kind)
      \* pairs <<target object, source object>> of the first k entries
      P == {<<IF kind = "all" THEN w[i][1] ELSE ObjN(L, w[i][2]), IF kind = "all" THEN ObjN(M, w[i][2]) ELSE w[i][1]>> :
              i \in {i \in 1..k : w[i][3]}}
      SrcOf(o) == (CHOOSE pr \in P : pr[1] = o)[2]
      IsT(o) == \E pr \in P : pr[1] = o IN
  /\ val'  = [o \in Live |-> IF IsT(o) THEN val[SrcOf(o)] ELSE val[o]]
  /\ con'  = [o \in Live |-> IF IsT(o) THEN con[SrcOf(o)] ELSE con[o]]
  /\ prec' = [o \in Live |-> IF IsT(o) THEN prec[SrcOf(o)] ELSE prec[o]]
  /\ UNCHANGED <<auto, name, list, dupOk>>
LWhole(L, M, kind) ==
  /\ L \in Lists /\ M \in Lists /\ Unique(L) /\ Unique(M)
  /\ LET op == CASE kind = "set" -> "LSetParams" [] kind = "all" -> "LSetAllParams" [] OTHER -> "LMatchParams"
         a  == [L |-> L, M |-> M]
         k  == WholePrefix(L, M, kind) IN
     IF k = Len(WholeOrder(L, M, kind))
     THEN WholeEffect(L, M, kind, k) /\ DoneL(op, "ok", a, <<>>)
     ELSE /\ DoneL(op, PNF, a, <<>>)
          /\ (WholeEffect(L, M, kind, k) \/ SameL)

\* ---------------------------------------------------------------- deletions
LDelName(L, n) ==
  /\ L \in Lists /\ Unique(L)
  /\ IF HasN(L, n)
     THEN SetList(L, Remove(list[L], {PosN(L, n)})) /\ UNCHANGED pvars /\ KeepDup /\ DoneL("LDelName", "ok", [L |-> L, n |-> n], <<>>)
     ELSE SameL /\ DoneL("LDelName", PNF, [L |-> L, n |-> n], <<>>)
\* names one after the other; an absent name raises when mustExist, after the earlier ones were deleted
LDelNames(L, ns, must) ==
  /\ L \in Lists /\ Unique(L)
  /\ LET Absent(i) == ~HasN(L, ns[i]) \/ \E j \in 1..(i - 1) : ns[j] = ns[i]
         S == {i \in DOMAIN ns : Absent(i)}
         k == IF must = 0 \/ S = {} THEN Len(ns) ELSE (CHOOSE i \in S : \A j \in S : i <= j) - 1
         D == {PosN(L, ns[i]) : i \in {i \in 1..k : HasN(L, ns[i])}}
         a == [L |-> L, ns |-> ns] IN
     /\ UNCHANGED pvars
     /\ IF k = Len(ns) THEN SetList(L, Remove(list[L], D)) /\ DoneL("LDelNames", "ok", a, <<>>)
        ELSE (SetList(L, Remove(list[L], D)) \/ UNCHANGED list) /\ DoneL("LDelNames", PNF, a, <<>>)
     /\ KeepDup
\* positions are 0-based as in the code
LDelIdx(L, i) ==
  /\ L \in Lists
  /\ IF i < Len(list[L])
     THEN SetList(L, Remove(list[L], {i + 1})) /\ UNCHANGED pvars /\ KeepDup /\ DoneL("LDelIdx", "ok", [L |-> L, i |-> i], <<>>)
     ELSE SameL /\ DoneL("LDelIdx", IOOB, [L |-> L, i |-> i], <<>>)
\* unsorted, repeat-free index vector
LDelIdxs(L, is) ==
  /\ L \in Lists /\ Unique(L) /\ Inj(is)
  /\ LET ok == \A i \in DOMAIN is : is[i] < Len(list[L])
         D  == {is[i] + 1 : i \in {i \in DOMAIN is : is[i] < Len(list[L])}}
         a  == [L |-> L, is |-> is] IN
     IF ok THEN SetList(L, Remove(list[L], D)) /\ UNCHANGED pvars /\ KeepDup /\ DoneL("LDelIdxs", "ok", a, <<>>)
     ELSE SameL /\ DoneL("LDelIdxs", IOOB, a, <<>>)

\* ---------------------------------------------------------------- sub-lists (R is a new list)
\* createSubList(names) / createSubList(name): clones; an unknown name raises (no list is produced).
\* kinds: the kind of each clone (the code copies through the base class here; the statement does not fix the kind)
LSubNames(L, ns, R, news, kinds) ==
  /\ L \in Lists /\ R \notin Lists /\ Unique(L) /\ Inj(ns)
  /\ LET a == [L |-> L, R |-> R, ns |-> ns] IN
     IF \A i \in DOMAIN ns : HasN(L, ns[i])
     THEN /\ Fresh(news) /\ Len(news) = Len(ns)
          /\ Clone(val, [i \in DOMAIN ns |-> ObjN(L, ns[i])], news, kinds)
          /\ PutList(R, news) /\ KeepDup /\ DoneL("LSubNames", "ok", a, <<>>)
     ELSE SameL /\ news = <<>> /\ DoneL("LSubNames", PNF, a, <<>>)
LShareSubNames(L, ns, R) ==
  /\ L \in Lists /\ R \notin Lists /\ Unique(L) /\ Inj(ns)
  /\ LET a == [L |-> L, R |-> R, ns |-> ns] IN
     IF \A i \in DOMAIN ns : HasN(L, ns[i])
     THEN PutList(R, [i \in DOMAIN ns |-> ObjN(L, ns[i])]) /\ UNCHANGED pvars /\ KeepDup /\ DoneL("LShareSubNames", "ok", a, <<>>)
     ELSE SameL /\ DoneL("LShareSubNames", PNF, a, <<>>)
\* by positions (0-based, repeat-free, any order): positions outside the list name nothing
InRange(L, is) == SelectSeq(is, LAMBDA i : i < Len(list[L]))
LSubIdxs(L, is, R, news) ==
  /\ L \in Lists /\ R \notin Lists /\ Unique(L) /\ Inj(is)
  /\ LET v == InRange(L, is) IN
     /\ Fresh(news) /\ Len(news) = Len(v)
     /\ Clone(val, [i \in DOMAIN v |-> list[L][v[i] + 1]], news, [i \in DOMAIN v |-> auto[list[L][v[i] + 1]]])
     /\ PutList(R, news) /\ KeepDup /\ DoneL("LSubIdxs", "ok", [L |-> L, R |-> R, is |-> is], <<>>)
LShareSubIdxs(L, is, R) ==
  /\ L \in Lists /\ R \notin Lists /\ Unique(L) /\ Inj(is)
  /\ LET v == InRange(L, is) IN
     /\ PutList(R, [i \in DOMAIN v |-> list[L][v[i] + 1]]) /\ UNCHANGED pvars /\ KeepDup
     /\ DoneL("LShareSubIdxs", "ok", [L |-> L, R |-> R, is |-> is], <<>>)
\* getCommonParametersWith(M): the parameters named in both lists, as independent objects.  The documentation does not
\* say whose values the result carries: taken from M in M's order (the code) or from L in L's order.
LCommon(L, M, R, news) ==
  /\ L \in Lists /\ M \in Lists /\ R \notin Lists /\ Unique(L) /\ Unique(M)
  /\ \E side \in {"M", "L"} :
       LET A == IF side = "M" THEN M ELSE L
           B == IF side = "M" THEN L ELSE M
           srcs == SelectSeq(list[A], LAMBDA o : HasN(B, name[o])) IN
       /\ Fresh(news) /\ Len(news) = Len(srcs)
       /\ Clone(val, srcs, news, KindsOf(srcs))
       /\ PutList(R, news) /\ KeepDup
       /\ DoneL("LCommon", "ok", [L |-> L, M |-> M, R |-> R], <<>>)

\* ---------------------------------------------------------------- outside the statement
\* setParameter(i, p): replaces entry i by a clone of p whatever its name
LSetParameter(L, i, n, v, c, au, news) ==
  /\ L \in Lists /\ Unique(L)
  /\ LET a == [L |-> L, i |-> i] IN
     IF i >= Len(list[L]) THEN SameL /\ news = <<>> /\ DoneL("LSetParameter", IOOB, a, <<>>)
     ELSE /\ Fresh(news) /\ Len(news) = 1
          /\ val' = Put(val, news[1], v) /\ con' = Put(con, news[1], c) /\ prec' = Put(prec, news[1], 0)
          /\ auto' = Put(auto, news[1], au) /\ name' = Put(name, news[1], n)
          /\ SetList(L, [list[L] EXCEPT ![i + 1] = news[1]])
          /\ dupOk' = {X \in dupOk \cup {L} : ~UniqueIn(list', name', X)}
          /\ DoneL("LSetParameter", "ok", a, <<>>)

\* look-ups by name: hasParameter, whichParameterHasName, getParameterValue, parameter(name)
LQuery(L, n) ==
  /\ L \in Lists /\ Unique(L) /\ SameL
  /\ IF HasN(L, n) THEN DoneL("LQuery", "ok", [L |-> L, n |-> n], <<1, PosN(L, n) - 1, ObjN(L, n), val[ObjN(L, n)]>>)
     ELSE DoneL("LQuery", PNF, [L |-> L, n |-> n], <<0>>)

\* ---------------------------------------------------------------- C02: invariants and action properties
TypeOKL == /\ TypeOK
           /\ \A L \in Lists : ObjsOf(list[L]) \subseteq Live /\ Inj(list[L])
           /\ dupOk \subseteq Lists
\* names inside a list stay unique (only setParameter(i, .) may break it: outside the statement)
NamesUnique == \A L \in Lists : Unique(L) \/ L \in dupOk

BulkOps == {"LSetValues", "LSetAllValues", "LMatchValues", "LTest"}
SeqOps  == {"LInclude", "LShareAll", "LAddAll", "LSetParams", "LSetAllParams", "LDelNames"}   \* entry by entry
vars2 == <<lvars, last>>
\* a call that raises changes nothing (entry-by-entry calls may have processed the entries before the offending one)
RaiseKeepsL == [][(last'.out # "ok" /\ last'.op \notin SeqOps) => UNCHANGED lvars]_vars2
\* bulk update: every matching value or nothing; raise iff a target's constraint rejects a matching value
BulkAtomic ==
  [][last'.op \in BulkOps =>
       LET L == last'.a.L  M == last'.a.M IN
       /\ (last'.out = CE) => (BulkRejected(L, M) /\ UNCHANGED lvars)
       /\ BulkRejected(L, M) => last'.out # "ok"
       /\ (last'.out = "ok" /\ last'.op # "LTest") =>
             \A i \in DOMAIN list[L] : \A j \in DOMAIN list[M] :
                NameAt(L, i) = NameAt(M, j) => val'[list[L][i]] = val[list[M][j]]
    ]_vars2
\* parameters not named in the source are never touched; a value update changes values only
Untouched ==
  [][last'.op \in BulkOps \cup {"LSetValue"} =>
       /\ con' = con /\ name' = name /\ list' = list /\ prec' = prec /\ auto' = auto
       /\ \A o \in Live : val'[o] # val[o] =>
            IF last'.op = "LSetValue" THEN o = ObjN(last'.a.L, last'.a.n)
            ELSE last'.op # "LTest" /\ \E j \in DOMAIN list[last'.a.M] : HasN(last'.a.L, NameAt(last'.a.M, j)) /\ o = ObjN(last'.a.L, NameAt(last'.a.M, j))
    ]_vars2
\* the reported flag / positions are exactly the entries whose value differed
FlagExact ==
  [][(last'.op \in {"LMatchValues", "LTest"} /\ last'.out = "ok") =>
       LET L == last'.a.L  M == last'.a.M
           D == {j \in DOMAIN list[M] : \E i \in DOMAIN list[L] : NameAt(L, i) = NameAt(M, j) /\ val[list[L][i]] # val[list[M][j]]} IN
       /\ last'.ret[1] = (IF D # {} THEN 1 ELSE 0)
       /\ last'.op = "LMatchValues" =>
            /\ {last'.ret[2][i] + 1 : i \in DOMAIN last'.ret[2]} = D
            /\ Len(last'.ret[2]) = Cardinality(D)
    ]_vars2
\* adding a present name is refused; including / sharing it is a value update
AddRefused ==
  [][/\ (last'.op = "LAdd" /\ HasN(last'.a.L, last'.a.n)) => (last'.out = PEX /\ UNCHANGED lvars)
     /\ (last'.op = "LShare" /\ HasN(last'.a.L, name[last'.a.o])) =>
           (list' = list /\ (last'.out = "ok" => val'[ObjN(last'.a.L, name[last'.a.o])] = Written(ObjN(last'.a.L, name[last'.a.o]), val[last'.a.o])))
     /\ (last'.op = "LShare" /\ ~HasN(last'.a.L, name[last'.a.o])) => list'[last'.a.L] = Append(list[last'.a.L], last'.a.o)
    ]_vars2
\* a copied list / extracted sub-list is made of objects nobody else holds; a shared sub-list of the very same objects
CopyOps == {"LCopy", "LAssign", "LSubNames", "LSubIdxs", "LCommon"}
CopyIndependent ==
  [][(last'.op \in CopyOps /\ last'.out = "ok") =>
       LET R == last'.a.R IN
       /\ ObjsOf(list'[R]) \cap Live = {} /\ Inj(list'[R])
       /\ \A X \in DOMAIN list' : X # R => list'[X] = list[X]
       /\ \A o \in Live : val'[o] = val[o] /\ con'[o] = con[o]
       /\ last'.op \in {"LCopy", "LAssign"} =>
             /\ Len(list'[R]) = Len(list[last'.a.L])
             /\ \A i \in DOMAIN list'[R] : LET o == list'[R][i]  s == list[last'.a.L][i] IN
                   name'[o] = name[s] /\ val'[o] = val[s] /\ con'[o] = con[s]
    ]_vars2
ShareSame ==
  [][(last'.op \in {"LShareSubNames", "LShareSubIdxs"} /\ last'.out = "ok") =>
       /\ ObjsOf(list'[last'.a.R]) \subseteq ObjsOf(list[last'.a.L]) /\ UNCHANGED pvars
    ]_vars2
\* look-ups, deletions and extractions address exactly the named entries
AddressExact ==
  [][/\ (last'.op = "LQuery" /\ last'.out = "ok") =>
           LET r == last'.ret IN name[r[3]] = last'.a.n /\ list[last'.a.L][r[2] + 1] = r[3] /\ val[r[3]] = r[4]
     /\ last'.op = "LQuery" => (last'.out = "ok" <=> HasN(last'.a.L, last'.a.n))
     /\ (last'.op = "LDelName" /\ last'.out = "ok") =>
           /\ {name[o] : o \in ObjsOf(list'[last'.a.L])} = NamesOf(last'.a.L) \ {last'.a.n}
           /\ ObjsOf(list'[last'.a.L]) \subseteq ObjsOf(list[last'.a.L])
     /\ (last'.op = "LDelIdxs" /\ last'.out = "ok") =>
           ObjsOf(list'[last'.a.L]) = ObjsOf(list[last'.a.L]) \ {list[last'.a.L][last'.a.is[i] + 1] : i \in DOMAIN last'.a.is}
     /\ (last'.op \in {"LSubNames", "LShareSubNames"} /\ last'.out = "ok") =>
           [i \in DOMAIN list'[last'.a.R] |-> name'[list'[last'.a.R][i]]] = last'.a.ns
     /\ (last'.op \in {"LDelName", "LDelNames", "LDelIdx", "LDelIdxs"}) =>
           (UNCHANGED pvars /\ \A X \in Lists : X # last'.a.L => list'[X] = list[X])
    ]_vars2

\* ---------------------------------------------------------------- design model
\* constraint sets of the design configurations (a cfg file cannot spell tuples)
DConsSmall == {<<0, 2, 1, 1>>}                       \* [p0 ; between p0 and p1]  accepts code 0, rejects 4
DConsBig   == {<<0, 2, 1, 1>>, <<0, 8, 0, 1>>}       \* and ]p0 ; p2]
InitL == val = <<>> /\ con = <<>> /\ prec = <<>> /\ auto = <<>> /\ name = <<>> /\ list = <<>> /\ dupOk = {} /\ last = [op |-> "Init", out |-> "ok", a |-> <<>>, ret |-> <<>>]
MaxId == IF Live = {} THEN 0 ELSE CHOOSE m \in Live : \A x \in Live : x <= m
NewIds(k) == [i \in 1..k |-> MaxId + i]
Cons0 == DCons \cup {None}
ListObjs == UNION {ObjsOf(list[L]) : L \in Lists}
NameSeqs == {<<>>} \cup {<<n>> : n \in NameIds} \cup {s \in {<<n, m>> : n \in NameIds, m \in NameIds} : s[1] # s[2]}
IdxSeqs  == {<<>>} \cup {<<i>> : i \in 0..MaxLen} \cup {s \in {<<i, j>> : i \in 0..MaxLen, j \in 0..MaxLen} : s[1] # s[2]}
NextL ==
  \/ \E L \in LIds : LNew(L)
  \/ \E L \in Lists : LDrop(L) \/ LReset(L)
  \/ \E L \in Lists, R \in LIds : R # L /\ LCopy(L, R, NewIds(Len(list[L])))
  \/ \E L \in Lists, n \in NameIds, v \in DVals, c \in Cons0, au \in DKinds :
        /\ (IF c = None THEN TRUE ELSE Accepts(c, v))
        /\ \/ LAdd(L, n, v, c, au, NewIds(1))
           \/ \E i \in 0..MaxLen : LSetParameter(L, i, n, v, c, au, IF i < Len(list[L]) THEN NewIds(1) ELSE <<>>)
  \/ \E L \in Lists, o \in ListObjs : LShare(L, o)
  \/ \E L, M \in Lists, mode \in {"include", "share", "add"} :
        L # M /\ Unique(L) /\ Unique(M) /\
        \/ LSeq(L, M, mode, IF mode = "share" THEN <<>> ELSE NewIds(Len(SeqNewIdx(L, M, SeqPrefix(L, M, mode)))))
        \/ SeqPrefix(L, M, mode) < Len(list[M]) /\ LSeq(L, M, mode, <<>>)
  \/ \E L \in Lists, n \in NameIds, v \in DVals : LSetValue(L, n, v)
  \/ \E L \in Lists, n \in NameIds, c \in Cons0 : LSetConstraint(L, n, c)
  \/ \E L, M \in Lists, kind \in {"set", "all", "match", "test"} : LBulk(L, M, kind)
  \/ \E L, M \in Lists, kind \in {"set", "all", "match"} : LWhole(L, M, kind)
  \/ \E L \in Lists, n \in NameIds : LDelName(L, n) \/ LQuery(L, n)
  \/ \E L \in Lists, ns \in NameSeqs, must \in {0, 1} : LDelNames(L, ns, must)
  \/ \E L \in Lists, i \in 0..MaxLen : LDelIdx(L, i)
  \/ \E L \in Lists, is \in IdxSeqs : LDelIdxs(L, is)
  \/ \E L \in Lists, R \in LIds \ Lists, ns \in NameSeqs :
        \/ LSubNames(L, ns, R, IF \A i \in DOMAIN ns : HasN(L, ns[i]) THEN NewIds(Len(ns)) ELSE <<>>,
                     [i \in DOMAIN ns |-> IF HasN(L, ns[i]) THEN auto[ObjN(L, ns[i])] ELSE 0])
        \/ LShareSubNames(L, ns, R)
  \/ \E L \in Lists, R \in LIds \ Lists, is \in IdxSeqs :
        \/ LSubIdxs(L, is, R, NewIds(Len(InRange(L, is))))
        \/ LShareSubIdxs(L, is, R)
  \/ \E L, M \in Lists, R \in LIds \ Lists, k \in 0..MaxLen : LCommon(L, M, R, NewIds(k))
SpecL == InitL /\ [][NextL]_vars2
BoundL == \A L \in Lists : Len(list[L]) <= MaxLen
\* states are identified up to the identity of objects: each list position carries its attributes and the first
\* position (in list order) that holds the same object
FirstPos(o) == CHOOSE q \in {<<L, i>> : L \in Lists, i \in 1..MaxLen} :
                  /\ q[2] \in DOMAIN list[q[1]] /\ list[q[1]][q[2]] = o
                  /\ \A L \in Lists : \A i \in DOMAIN list[L] : list[L][i] = o => (q[1] < L \/ (q[1] = L /\ q[2] <= i))
ViewL == <<[L \in Lists |-> [i \in DOMAIN list[L] |->
             LET o == list[L][i] IN <<name[o], val[o], con[o], auto[o], FirstPos(o)>>]], dupOk>>
=============================================================================
