SPECIFICATION TraceSpec
CONSTANTS
  K = 10
  PIds = {}
  Precs = {}
  LIds = {}
  NameIds = {}
  DVals = {}
  DCons = {}
  DKinds = {}
  MaxLen = 0
INVARIANTS TypeOKL ParamOK NamesUnique
PROPERTIES RaiseKeepsT RejectRaises AutoNearest RaiseKeepsL BulkAtomic Untouched FlagExact AddRefused CopyIndependent ShareSame AddressExact
POSTCONDITION TraceAccepted
CHECK_DEADLOCK FALSE
