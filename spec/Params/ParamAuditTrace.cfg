SPECIFICATION TraceSpec
CONSTANTS
  Objs = {}
  K = 1
INVARIANTS WellCoded AuditParamOK IsCorrectAgrees RemoveRemoves
POSTCONDITION TraceAccepted
CHECK_DEADLOCK FALSE
