----------------------------- MODULE ParamsTrace -----------------------------
\* Trace validation for C01 and C02: every event recorded by harness/drv_params.cpp
\* from the real Parameter / AutoParameter / IntervalConstraint / ParameterList /
\* AbstractParametrizable objects must be a step of Params / ParamList, with the
\* arguments bound from the event, the outcome compared (class of the exception
\* only) and the projected state read back from the objects compared with the
\* model's next state.  All invariants and action properties of the two
\* modules are evaluated along the trace.
\*
\* Event fields: e (action), r (outcome), ret (returned value), s = projected state
\*   s.P = <<id, name, value code, constraint (<<lo,hi,il,iu>> or <<>>), precision, kind>> for every parameter
\*         object the driver can reach (its own handles and every list entry)
\*   s.L = <<list id, <<object ids>>>> for every live list
\* Interval algebra events (Alg1, Alg2, Desc) carry observations of free
\* IntervalConstraint objects and leave the state unchanged.
EXTENDS ParamList, TraceLib

S == Ev.s
LoggedIds == {S.P[i][1] : i \in DOMAIN S.P}
LoggedList(X) == S.L[CHOOSE i \in DOMAIN S.L : S.L[i][1] = X][2]
HasLogged(X) == \E i \in DOMAIN S.L : S.L[i][1] = X
LoggedKind(o) == S.P[CHOOSE i \in DOMAIN S.P : S.P[i][1] = o][6]
Suffix(s, k) == IF Len(s) > k THEN SubSeq(s, k + 1, Len(s)) ELSE <<>>
ListOr(X) == IF HasLogged(X) THEN LoggedList(X) ELSE <<>>

\* the state read back from the implementation is the model's next state
ProjOk ==
  /\ \A i \in DOMAIN S.P :
       LET x == S.P[i] IN
       /\ x[1] \in DOMAIN val'
       /\ name'[x[1]] = x[2] /\ val'[x[1]] = x[3] /\ con'[x[1]] = x[4] /\ prec'[x[1]] = x[5] /\ auto'[x[1]] = x[6]
  /\ {S.L[i][1] : i \in DOMAIN S.L} = DOMAIN list'
  /\ \A i \in DOMAIN S.L : list'[S.L[i][1]] = S.L[i][2] /\ ObjsOf(S.L[i][2]) \subseteq LoggedIds
Out == last'.out = Ev.r
P1 == UNCHANGED <<list, dupOk>>            \* frame of the single-parameter actions
Lst(op, out, a) == last' = [op |-> op, out |-> out, a |-> a, ret |-> <<>>]

TReset == /\ IsEvent("Reset")
          /\ val' = <<>> /\ con' = <<>> /\ prec' = <<>> /\ auto' = <<>> /\ name' = <<>> /\ list' = <<>> /\ dupOk' = {}
          /\ last' = [op |-> "Init", out |-> "ok", a |-> <<>>, ret |-> <<>>]

\* ---------------------------------------------------------------- single parameters (C01)
\* the Params actions set last' without the ret field: the trace uses variants that carry it
TConstruct ==
  /\ IsEvent("Construct") /\ P1
  /\ LET p == Ev.p  c == Ev.c  v == Ev.v IN
     IF c # None /\ ~Accepts(c, v)
     THEN Same /\ Lst("Construct", CE, <<p, v, c>>)
     ELSE /\ p \notin Live
          /\ val' = Put(val, p, v) /\ con' = Put(con, p, c) /\ prec' = Put(prec, p, Ev.pr)
          /\ auto' = Put(auto, p, Ev.au) /\ name' = Put(name, p, Ev.n)
          /\ Lst("Construct", "ok", <<p, v, c>>)
  /\ Out /\ ProjOk
TCopy == /\ IsEvent("Copy") /\ P1
         /\ LET p == Ev.p  q == Ev.q IN
            /\ p \in Live /\ q \notin Live
            /\ val' = Put(val, q, val[p]) /\ con' = Put(con, q, con[p]) /\ prec' = Put(prec, q, prec[p])
            /\ auto' = Put(auto, q, Ev.au) /\ name' = Put(name, q, name[p])
            /\ Lst("Copy", "ok", <<p, q>>)
         /\ Out /\ ProjOk
TAssign == /\ IsEvent("Assign") /\ P1
           /\ LET p == Ev.p  q == Ev.q IN
              /\ p \in Live /\ q \in Live
              /\ val' = [val EXCEPT ![q] = val[p]] /\ con' = [con EXCEPT ![q] = con[p]]
              /\ prec' = [prec EXCEPT ![q] = prec[p]] /\ name' = [name EXCEPT ![q] = name[p]]
              /\ UNCHANGED auto /\ Lst("Assign", "ok", <<p, q>>)
           /\ Out /\ ProjOk
TSetValue ==
  /\ IsEvent("SetValue") /\ P1 /\ Ev.p \in Live
  /\ LET p == Ev.p  v == Ev.v  a == <<p, v>> IN
     IF auto[p] = 1
     THEN \/ (Near(p, v) \/ Near(p, AutoTarget(p, v))) /\ Same /\ Lst("SetValue", "ok", a)
          \/ ~Near(p, v) /\ val' = [val EXCEPT ![p] = AutoTarget(p, v)] /\ UNCHANGED <<con, prec, auto, name>> /\ Lst("SetValue", "ok", a)
     ELSE \/ Near(p, v) /\ Same /\ Lst("SetValue", "ok", a)
          \/ Rejects(p, v) /\ Same /\ Lst("SetValue", CE, a)
          \/ ~Near(p, v) /\ ~Rejects(p, v) /\ val' = [val EXCEPT ![p] = v] /\ UNCHANGED <<con, prec, auto, name>> /\ Lst("SetValue", "ok", a)
  /\ Out /\ ProjOk
TSetConstraint ==
  /\ IsEvent("SetConstraint") /\ P1 /\ Ev.p \in Live
  /\ LET p == Ev.p  c == Ev.c IN
     IF c # None /\ ~Accepts(c, val[p]) THEN Same /\ Lst("SetConstraint", CE, <<p, c>>)
     ELSE con' = [con EXCEPT ![p] = c] /\ UNCHANGED <<val, prec, auto, name>> /\ Lst("SetConstraint", "ok", <<p, c>>)
  /\ Out /\ ProjOk
TRemoveConstraint ==
  /\ IsEvent("RemoveConstraint") /\ P1 /\ Ev.p \in Live
  /\ con' = [con EXCEPT ![Ev.p] = None] /\ UNCHANGED <<val, prec, auto, name>> /\ Lst("RemoveConstraint", "ok", <<Ev.p>>)
  /\ Out /\ ProjOk
TSetPrecision ==
  /\ IsEvent("SetPrecision") /\ P1 /\ Ev.p \in Live
  /\ prec' = [prec EXCEPT ![Ev.p] = Ev.pr] /\ UNCHANGED <<val, con, auto, name>> /\ Lst("SetPrecision", "ok", <<Ev.p, Ev.pr>>)
  /\ Out /\ ProjOk

\* ---------------------------------------------------------------- interval algebra observations
SeqSet(s) == {s[i] : i \in DOMAIN s}
B01(b) == IF b THEN 1 ELSE 0
\* one interval: membership of every code, emptiness, limits, includes
Alg1Ok(ev) ==
  LET I == ev.I  Kk == ev.K IN
  /\ SeqSet(ev.acc) = AcceptSet(I, Kk)                                 \* isCorrect on every code
  /\ ev.emp = B01(EmptyDef(I, Kk))                                     \* isEmpty iff no real accepted
  /\ \A i \in DOMAIN ev.lim : LET x == ev.lim[i][1] IN
        ~EmptyDef(I, Kk) => /\ ev.lim[i][2] = Limit(I, x)
                            /\ ev.lim[i][3] = NearestDef(I, x, Kk)      \* getAcceptedLimit
  /\ \A i \in DOMAIN ev.inc : LET a == ev.inc[i][1]  b == ev.inc[i][2] IN
        a <= b => ev.inc[i][3] = B01(IncludesDef(I, a, b, Kk))
  \* interval < value, > value, <= value, >= value: every accepted real is
  /\ \A i \in DOMAIN ev.cmp : LET v == ev.cmp[i][1]  A == AcceptSet(I, Kk) IN
        (~EmptyDef(I, Kk) /\ v \in CmpCodes(Kk)) =>
            /\ ev.cmp[i][2] = B01(\A x \in A : x < v) /\ ev.cmp[i][3] = B01(\A x \in A : x > v)
            /\ ev.cmp[i][4] = B01(\A x \in A : x <= v) /\ ev.cmp[i][5] = B01(\A x \in A : x >= v)
\* two intervals: the intersection (operator& and operator&=) accepts exactly what both accept, whatever its
\* representation; emptiness of the result is reported iff nothing is accepted; the operands are not modified by &
\* inclusion is asserted where counting the infinite values (accepted by an included infinite bound) or not gives the same verdict
SubAgree(I, J, Kk) == (AcceptSet(I, Kk) \subseteq AcceptSet(J, Kk)) <=> (AcceptSetX(I, Kk) \subseteq AcceptSetX(J, Kk))
Alg2Ok(ev) ==
  LET I == ev.I  J == ev.J  Kk == ev.K  both == AcceptSet(I, Kk) \cap AcceptSet(J, Kk) IN
  /\ SeqSet(ev.andacc) = both
  /\ SeqSet(ev.iandacc) = both
  /\ ev.andemp = B01(both = {})
  /\ ev.iandemp = B01(both = {})
  /\ ev.after = <<I, J>>
  /\ ev.jafter = J
  \* operator== / != : same bounds and flags; operator<= : inclusion of the accepted reals (asserted for a non-empty left side)
  /\ ev.eq = B01(I = J) /\ ev.ne = B01(I # J)
  /\ (~EmptyDef(I, Kk) /\ SubAgree(I, J, Kk)) => ev.le[1] = B01(AcceptSet(I, Kk) \subseteq AcceptSet(J, Kk))
  /\ (~EmptyDef(J, Kk) /\ SubAgree(J, I, Kk)) => ev.le[2] = B01(AcceptSet(J, Kk) \subseteq AcceptSet(I, Kk))
\* a description in the documented bracket syntax parses to the interval it denotes
DescOk(ev) == ev.r = "ok" /\ ev.got = Denote(ev.lb, ev.lo, ev.hi, ev.rb)

TAlg1 == IsEvent("Alg1") /\ Alg1Ok(Ev) /\ UNCHANGED vars2
TAlg2 == IsEvent("Alg2") /\ Alg2Ok(Ev) /\ UNCHANGED vars2
TDesc == IsEvent("Desc") /\ DescOk(Ev) /\ UNCHANGED vars2

\* ---------------------------------------------------------------- lists (C02) and list-level routes of C01
Ret == last'.ret = Ev.ret
IsOwn == "own" \in DOMAIN Ev /\ Ev.own = 1
\* the owning object returns the flag only (the changed positions show in its notification, see FiredOk)
RetBulk == IF IsOwn /\ Ev.e = "LMatchValues" THEN last'.ret[1] = Ev.ret[1] ELSE Ret
\* notifications of the owning object (fireParameterChanged): none when the call raises; the changed / given names otherwise
NamesAt(M, js) == [i \in DOMAIN js |-> name[list[M][js[i]]]]
FiredOk ==
  IsOwn =>
     IF Ev.r # "ok" THEN Ev.fired = <<>>
     ELSE CASE Ev.e = "LMatchValues" -> Ev.fired = (IF Differs(Ev.L, Ev.M) = <<>> THEN <<>> ELSE <<NamesAt(Ev.M, Differs(Ev.L, Ev.M))>>)
            [] Ev.e \in {"LSetValues", "LSetAllValues"} -> Ev.fired = <<[i \in DOMAIN list[Ev.M] |-> name[list[Ev.M][i]]]>>
            [] Ev.e = "LSetValue" -> Ev.fired = <<<<Ev.n>>>>
            [] OTHER -> TRUE

TLNew   == IsEvent("LNew") /\ LNew(Ev.L) /\ Out /\ ProjOk
TLDrop  == IsEvent("LDrop") /\ LDrop(Ev.L) /\ Out /\ ProjOk
TLReset == IsEvent("LReset") /\ LReset(Ev.L) /\ Out /\ ProjOk
TLCopy  == IsEvent("LCopy") /\ Ev.R \notin Lists /\ LCopy(Ev.L, Ev.R, ListOr(Ev.R)) /\ Out /\ ProjOk
TLAssign == IsEvent("LAssign") /\ Ev.R \in Lists /\ LCopy(Ev.L, Ev.R, ListOr(Ev.R)) /\ Out /\ ProjOk
TLAdd   == /\ IsEvent("LAdd") /\ Ev.p \in Live /\ prec[Ev.p] = 0 /\ Ev.L \in Lists
           /\ LAdd(Ev.L, name[Ev.p], val[Ev.p], con[Ev.p], auto[Ev.p], Suffix(ListOr(Ev.L), Len(list[Ev.L])))
           /\ Out /\ ProjOk
TLShare == IsEvent("LShare") /\ LShare(Ev.L, Ev.o) /\ Out /\ ProjOk
TLSeq(e, mode) == /\ IsEvent(e) /\ Ev.L \in Lists
                  /\ LSeq(Ev.L, Ev.M, mode, IF mode = "share" THEN <<>> ELSE Suffix(ListOr(Ev.L), Len(list[Ev.L])))
                  /\ Out /\ ProjOk
TLSetValue == IsEvent("LSetValue") /\ FiredOk /\ LSetValue(Ev.L, Ev.n, Ev.v) /\ Out /\ ProjOk
TLSetConstraint == IsEvent("LSetConstraint") /\ LSetConstraint(Ev.L, Ev.n, Ev.c) /\ Out /\ ProjOk
TLBulk(e, kind) == IsEvent(e) /\ FiredOk /\ LBulk(Ev.L, Ev.M, kind) /\ Out /\ (Ev.r = "ok" => RetBulk) /\ ProjOk
TLWhole(e, kind) == IsEvent(e) /\ LWhole(Ev.L, Ev.M, kind) /\ Out /\ ProjOk
TLDelName  == IsEvent("LDelName") /\ LDelName(Ev.L, Ev.n) /\ Out /\ ProjOk
TLDelNames == IsEvent("LDelNames") /\ LDelNames(Ev.L, Ev.ns, Ev.must) /\ Out /\ ProjOk
TLDelIdx   == IsEvent("LDelIdx") /\ LDelIdx(Ev.L, Ev.i) /\ Out /\ ProjOk
TLDelIdxs  == IsEvent("LDelIdxs") /\ LDelIdxs(Ev.L, Ev.is) /\ Out /\ ProjOk
TLSubNames == /\ IsEvent("LSubNames")
              /\ LET news == ListOr(Ev.R) IN LSubNames(Ev.L, Ev.ns, Ev.R, news, [i \in DOMAIN news |-> LoggedKind(news[i])])
              /\ Out /\ ProjOk
TLShareSubNames == IsEvent("LShareSubNames") /\ LShareSubNames(Ev.L, Ev.ns, Ev.R) /\ Out /\ ProjOk
TLSubIdxs == IsEvent("LSubIdxs") /\ LSubIdxs(Ev.L, Ev.is, Ev.R, ListOr(Ev.R)) /\ Out /\ ProjOk
TLShareSubIdxs == IsEvent("LShareSubIdxs") /\ LShareSubIdxs(Ev.L, Ev.is, Ev.R) /\ Out /\ ProjOk
TLCommon == IsEvent("LCommon") /\ LCommon(Ev.L, Ev.M, Ev.R, ListOr(Ev.R)) /\ Out /\ ProjOk
TLSetParameter ==
  /\ IsEvent("LSetParameter") /\ Ev.p \in Live /\ prec[Ev.p] = 0 /\ Ev.L \in Lists
  /\ LSetParameter(Ev.L, Ev.i, name[Ev.p], val[Ev.p], con[Ev.p], auto[Ev.p],
                   IF Ev.i < Len(list[Ev.L]) /\ HasLogged(Ev.L) THEN <<LoggedList(Ev.L)[Ev.i + 1]>> ELSE <<>>)
  /\ Out /\ ProjOk
TLQuery == IsEvent("LQuery") /\ LQuery(Ev.L, Ev.n) /\ Out /\ Ret /\ ProjOk

TraceNext ==
  \/ TReset \/ TConstruct \/ TCopy \/ TAssign \/ TSetValue \/ TSetConstraint \/ TRemoveConstraint \/ TSetPrecision
  \/ TAlg1 \/ TAlg2 \/ TDesc
  \/ TLNew \/ TLDrop \/ TLReset \/ TLCopy \/ TLAssign \/ TLAdd \/ TLShare
  \/ TLSeq("LInclude", "include") \/ TLSeq("LShareAll", "share") \/ TLSeq("LAddAll", "add")
  \/ TLSetValue \/ TLSetConstraint
  \/ TLBulk("LSetValues", "set") \/ TLBulk("LSetAllValues", "all") \/ TLBulk("LMatchValues", "match") \/ TLBulk("LTest", "test")
  \/ TLWhole("LSetParams", "set") \/ TLWhole("LSetAllParams", "all") \/ TLWhole("LMatchParams", "match")
  \/ TLDelName \/ TLDelNames \/ TLDelIdx \/ TLDelIdxs
  \/ TLSubNames \/ TLShareSubNames \/ TLSubIdxs \/ TLShareSubIdxs \/ TLCommon
  \/ TLSetParameter \/ TLQuery
TraceInit == InitL /\ l = 1
TraceSpec == TraceInit /\ [][TraceNext]_<<vars2, l>>

\* the C01 action properties restated for the trace (last carries the ret field here)
RaiseKeepsT == [][(last'.op \in POps /\ last'.out # "ok") => UNCHANGED lvars]_<<vars2, l>>
=============================================================================
