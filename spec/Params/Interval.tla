------------------------------ MODULE Interval ------------------------------
\* Interval constraints of bpp-core (src/Bpp/Numeric/Constraints.h) over the
\* order-type encoding E1.  A scenario draws its reals from a sorted pool
\* p0 < p1 < ... ; only integer codes are exchanged with the implementation:
\*     4k     pool point k
\*     4k+1   pool point k plus one precision step of the constraint (1e-12)
\*     4k-1   pool point k minus one precision step
\*     4k+2   a real strictly between (pool point k)+step and (pool point k+1)-step
\*     -2     a real below p0 - step,   4(K-1)+2  a real above the last point + step
\*     NINF / PINF  the infinite bounds
\* Membership, intersection, emptiness and limits depend on the order of their
\* arguments only, and the codes realise every order type of {bounds, value}.
\* An interval is the tuple <<lo, hi, il, iu>>, il/iu = 1 when the bound is
\* included; "no constraint" is the empty tuple.
EXTENDS Integers, FiniteSets, Sequences

NINF == -1000000
PINF == 1000000
None == <<>>

FinCodes(K)  == (-2)..(4 * (K - 1) + 2)          \* every finite code of a K-point pool
PoolCodes(K) == {4 * k : k \in 0..(K - 1)}
\* bounds are pool points or infinite; a lower bound +inf / upper bound -inf is not generated
Intervals(K) == {<<lo, hi, il, iu>> : lo \in PoolCodes(K) \cup {NINF}, hi \in PoolCodes(K) \cup {PINF},
                                      il \in {0, 1}, iu \in {0, 1}}

\* ---------------------------------------------------------------- definitions (the property)
Accepts(I, x) == /\ (IF I[3] = 1 THEN x >= I[1] ELSE x > I[1])
                 /\ (IF I[4] = 1 THEN x <= I[2] ELSE x < I[2])
AcceptSet(I, K) == {x \in FinCodes(K) : Accepts(I, x)}
AcceptSetX(I, K) == {x \in FinCodes(K) \cup {NINF, PINF} : Accepts(I, x)}
EmptyDef(I, K)  == AcceptSet(I, K) = {}
IncludesDef(I, a, b, K) == \A x \in FinCodes(K) : (a <= x /\ x <= b) => Accepts(I, x)
\* the accepted value nearest to the request x (codes are ordered like the reals they stand for)
NearestDef(I, x, K) ==
  LET A == AcceptSet(I, K) IN
  IF x \in A THEN x
  ELSE IF \A y \in A : x < y THEN CHOOSE y \in A : \A z \in A : y <= z
  ELSE CHOOSE y \in A : \A z \in A : z <= y
\* bracket syntax:  [a;b]  ]a;b[  [a;b[  ]a;b]
Denote(lbr, lo, hi, rbr) == <<lo, hi, IF lbr = "[" THEN 1 ELSE 0, IF rbr = "]" THEN 1 ELSE 0>>

\* ---------------------------------------------------------------- closed forms (what the code should compute)
IsEmpty(I) == I[1] > I[2] \/ (I[1] = I[2] /\ ~(I[3] = 1 /\ I[4] = 1))
Includes(I, a, b) == /\ (IF I[3] = 1 THEN a >= I[1] ELSE a > I[1])
                     /\ (IF I[4] = 1 THEN b <= I[2] ELSE b < I[2])
Both(f, g) == IF f = 1 /\ g = 1 THEN 1 ELSE 0
\* larger lower bound, smaller upper bound; at equal bounds the conjunction of the flags
Inter(I, J) ==
  <<IF I[1] >= J[1] THEN I[1] ELSE J[1],
    IF I[2] <= J[2] THEN I[2] ELSE J[2],
    IF I[1] > J[1] THEN I[3] ELSE IF J[1] > I[1] THEN J[3] ELSE Both(I[3], J[3]),
    IF I[2] < J[2] THEN I[4] ELSE IF J[2] < I[2] THEN J[4] ELSE Both(I[4], J[4])>>
Below(I, x) == x < I[1] \/ (x = I[1] /\ I[3] = 0)      \* x rejected on the lower side
Limit(I, x) == IF Accepts(I, x) THEN x ELSE IF Below(I, x) THEN I[1] ELSE I[2]
AcceptedLimit(I, x) ==
  IF Accepts(I, x) THEN x
  ELSE IF Below(I, x) THEN (IF I[3] = 1 THEN I[1] ELSE I[1] + 1)
  ELSE (IF I[4] = 1 THEN I[2] ELSE I[2] - 1)

\* comparisons (Constraints.h: operator== / != "equals / is different from another one": bounds and flags;
\* operator<=(interval) "is included or equal in another one"; interval < > <= >= value: every accepted real is)
SameI(I, J) == I = J
SubI(I, J)  == /\ (I[1] > J[1] \/ (I[1] = J[1] /\ (J[3] = 1 \/ I[3] = 0)))
               /\ (I[2] < J[2] \/ (I[2] = J[2] /\ (J[4] = 1 \/ I[4] = 0)))
AllLt(I, v) == IF I[4] = 1 THEN I[2] < v ELSE I[2] <= v
AllGt(I, v) == IF I[3] = 1 THEN I[1] > v ELSE I[1] >= v
AllLe(I, v) == I[2] <= v
AllGe(I, v) == I[1] >= v
\* test values of the value comparisons: pool points and points strictly between two of them (a value one precision
\* step away from an open bound has accepted reals on both sides that no code stands for)
\* (nor do the two outermost codes, beyond which there are reals without a code)
CmpCodes(K) == {x \in FinCodes(K) : x % 4 \in {0, 2} /\ x > -2 /\ x < 4 * (K - 1) + 2}

\* ---------------------------------------------------------------- transcription of the code as found (kept to show
\* that the lemmas below discriminate: TLC refutes them for these operators)
InterOld(I, J) ==
  <<IF I[1] <= J[1] THEN J[1] ELSE I[1],
    IF I[2] >= J[2] THEN J[2] ELSE I[2],
    IF I[1] <= J[1] THEN J[3] ELSE I[3],
    IF I[2] >= J[2] THEN J[4] ELSE I[4]>>
IsEmptyOld(I) == I[1] > I[2]
SubOld(I, J)  == I[1] >= J[1] /\ I[2] <= J[2]

\* ---------------------------------------------------------------- lemmas (evaluated exhaustively by IntervalLemmas)
LemInter(K, F(_, _))  == \A I, J \in Intervals(K) : AcceptSet(F(I, J), K) = AcceptSet(I, K) \cap AcceptSet(J, K)
LemEmpty(K, E(_))     == \A I \in Intervals(K) : E(I) <=> EmptyDef(I, K)
LemEmptyInter(K)      == \A I, J \in Intervals(K) : IsEmpty(Inter(I, J)) <=> (AcceptSet(I, K) \cap AcceptSet(J, K) = {})
LemIncludes(K)        == \A I \in Intervals(K) : \A a, b \in FinCodes(K) : a <= b => (Includes(I, a, b) <=> IncludesDef(I, a, b, K))
LemNearest(K)         == \A I \in Intervals(K) : ~IsEmpty(I) => \A x \in FinCodes(K) : AcceptedLimit(I, x) = NearestDef(I, x, K)
LemLimit(K)           == \A I \in Intervals(K) : ~IsEmpty(I) => \A x \in FinCodes(K) :
                            /\ Limit(I, x) \in {x, I[1], I[2]}
                            /\ (Accepts(I, x) <=> Limit(I, x) = x /\ AcceptedLimit(I, x) = x)
                            /\ (~Accepts(I, x) => /\ Limit(I, x) = (IF \A y \in AcceptSet(I, K) : x < y THEN I[1] ELSE I[2])
                                                  /\ Accepts(I, AcceptedLimit(I, x)))
\* (an included infinite bound accepts the infinite value: the comparisons between intervals are stated on the
\*  accepted values including -inf / +inf, AcceptSetX; the trace asserts them where this makes no difference)
LemSame(K)            == \A I, J \in Intervals(K) : (~IsEmpty(I) /\ ~IsEmpty(J)) => (SameI(I, J) <=> AcceptSetX(I, K) = AcceptSetX(J, K))
LemSub(K, S(_, _))    == \A I, J \in Intervals(K) : ~IsEmpty(I) => (S(I, J) <=> AcceptSetX(I, K) \subseteq AcceptSetX(J, K))
LemCmp(K)             == \A I \in Intervals(K) : ~IsEmpty(I) => \A v \in CmpCodes(K) :
                            /\ AllLt(I, v) <=> \A x \in AcceptSet(I, K) : x < v
                            /\ AllGt(I, v) <=> \A x \in AcceptSet(I, K) : x > v
                            /\ AllLe(I, v) <=> \A x \in AcceptSet(I, K) : x <= v
                            /\ AllGe(I, v) <=> \A x \in AcceptSet(I, K) : x >= v
LemInterAlgebra(K)    == \A I, J \in Intervals(K) : /\ AcceptSet(Inter(I, J), K) = AcceptSet(Inter(J, I), K)
                                                     /\ Inter(I, I) = I
=============================================================================
