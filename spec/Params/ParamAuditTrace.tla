--------------------------- MODULE ParamAuditTrace ---------------------------
\* Every line of an audit file (harness/param_audit.h) is a step of the monitor ParamAudit; the C01
\* invariants are evaluated after every call-out.
EXTENDS ParamAudit, TraceLib

TReset   == IsEvent("Reset") /\ Forget
TAudit   == IsEvent("Audit") /\ Ev.m \in Members /\ Audit(Ev.o, Ev.m, Ev.k, Ev.c, Ev.v, Ev.ok)
TDestroy == IsEvent("Destroy") /\ Destroy(Ev.o)
TEnd     == IsEvent("End") /\ UNCHANGED st
TNote    == IsEvent("Note") /\ UNCHANGED st

TraceNext == TReset \/ TAudit \/ TDestroy \/ TEnd \/ TNote
TraceInit == Init /\ l = 1
TraceSpec == TraceInit /\ [][TraceNext]_<<st, l>>
=============================================================================
