----------------------------- MODULE ParamAudit -----------------------------
\* C01 for the parameters the library creates internally.  Hook h1 (guard BPP_CORE_VERIF) calls out at
\* the end of every state-changing member of bpp::Parameter; harness/param_audit.h writes what the object
\* looks like then.  This module is the monitor: per live object the last audited state, one action per
\* call-out, and the first sentence of C01 as a state invariant.
\*
\* Values and bounds are order codes *relative to the constraint's own bounds* (Interval.tla convention with
\* the finite bounds as the pool: smaller bound 0, larger bound 4, equal bounds both 0, infinite bounds
\* NINF / PINF; value -2 / 0 / 2 / 4 / 6, or infinite, or NAN).  Acceptance is decided here by Accepts, not
\* by the library's isCorrect (whose verdict is logged and must agree: IsCorrectAgrees).
\* RelLemma ties this encoding to the pool encoding of Params / Interval: it preserves acceptance.
EXTENDS Interval, TLC

CONSTANTS Objs,      \* design model: object identifiers
          K          \* grid of the lemma

VARIABLE st          \* st[o] = [k, c, v, ok, m] for every object audited and not destroyed

NAN == -999999
Kinds == {"none", "interval", "other"}
Members == {"ctor", "copy", "assign", "setValue", "autoSetValue", "setConstraint", "removeConstraint", "sweep"}
\* the interval shapes and value codes the encoder can produce
RelBounds == {NINF, PINF, 0, 4}
RelIntervals == {c \in {<<lo, hi, il, iu>> : lo \in RelBounds, hi \in RelBounds, il \in {0, 1}, iu \in {0, 1}} :
                    (c[1] = 4 => c[2] = 0) /\ (c[2] = 4 => c[1] = 0)}
RelCodes == {NINF, PINF, NAN, -2, 0, 2, 4, 6}

Put(f, o, x) == [y \in DOMAIN f \cup {o} |-> IF y = o THEN x ELSE f[y]]

\* ---------------------------------------------------------------- actions
Audit(o, m, k, c, v, ok) == st' = Put(st, o, [k |-> k, c |-> c, v |-> v, ok |-> ok, m |-> m])
Destroy(o) == st' = [y \in DOMAIN st \ {o} |-> st[y]]
Forget == st' = <<>>                       \* a Reset line of the audit file: the monitor starts afresh

\* ---------------------------------------------------------------- C01 on the audited states
Holds(s) == s.k = "interval" => (s.v # NAN /\ Accepts(s.c, s.v))
\* a constrained parameter never holds a value its constraint rejects
AuditParamOK == \A o \in DOMAIN st : Holds(st[o])
\* the library's own membership test agrees with the definition (for a constraint of another class it is all we have)
IsCorrectAgrees == \A o \in DOMAIN st :
                      /\ st[o].k = "interval" => (st[o].ok = 1 <=> (st[o].v # NAN /\ Accepts(st[o].c, st[o].v)))
                      /\ st[o].k = "other" => st[o].ok = 1
WellCoded == \A o \in DOMAIN st :
               /\ st[o].k \in Kinds /\ st[o].v \in RelCodes /\ st[o].ok \in {0, 1}
               /\ st[o].k = "interval" => st[o].c \in RelIntervals
               /\ st[o].k # "interval" => st[o].c = None
\* removing the constraint leaves none
RemoveRemoves == \A o \in DOMAIN st : st[o].m = "removeConstraint" => st[o].k = "none"

\* ---------------------------------------------------------------- the relative encoding preserves acceptance
Fin(b) == b # NINF /\ b # PINF
RelI(I) == <<IF ~Fin(I[1]) THEN I[1] ELSE IF Fin(I[2]) /\ I[1] > I[2] THEN 4 ELSE 0,
             IF ~Fin(I[2]) THEN I[2] ELSE IF Fin(I[1]) /\ I[2] > I[1] THEN 4 ELSE 0, I[3], I[4]>>
RelV(I, x) ==
  LET pts == {b \in {I[1], I[2]} : Fin(b)} IN
  IF pts = {} THEN 2
  ELSE LET lo == CHOOSE b \in pts : \A d \in pts : b <= d
           hi == CHOOSE b \in pts : \A d \in pts : d <= b IN
       IF x < lo THEN -2 ELSE IF x = lo THEN 0
       ELSE IF lo = hi THEN 2
       ELSE IF x < hi THEN 2 ELSE IF x = hi THEN 4 ELSE 6
RelLemma == \A I \in Intervals(K) : /\ RelI(I) \in RelIntervals
                                    /\ \A x \in FinCodes(K) : RelV(I, x) \in RelCodes /\ (Accepts(I, x) <=> Accepts(RelI(I), RelV(I, x)))
ASSUME RelLemma

\* ---------------------------------------------------------------- design model: what a correct library may be seen doing
\* (every member ends with the object in an accepted state; isCorrect tells the truth)
Init == st = <<>>
Next ==
  \/ \E o \in Objs, m \in Members \ {"removeConstraint"}, c \in RelIntervals, v \in RelCodes \ {NAN} :
        Accepts(c, v) /\ Audit(o, m, "interval", c, v, 1)
  \/ \E o \in Objs, m \in Members, v \in RelCodes : Audit(o, m, "none", None, IF v \in {-2, 0, 4, 6} THEN 2 ELSE v, 1)
  \/ \E o \in Objs, m \in Members \ {"removeConstraint"} : Audit(o, m, "other", None, 2, 1)
  \/ \E o \in DOMAIN st : Destroy(o)
  \/ Forget
Spec == Init /\ [][Next]_st
=============================================================================
