------------------------------- MODULE Params -------------------------------
\* Parameters of bpp-core (src/Bpp/Numeric/Parameter.{h,cpp}, AutoParameter.cpp):
\* a value, an optional interval constraint, a precision, a kind (plain or
\* auto-correcting).  One action per public call, each with an explicit
\* outcome ("ok" or "raise:<Class>") recorded in the ghost variable `last`
\* together with the arguments, so that the C01 statement can be written as
\* invariants and action properties over <<state, last'>>.
\*
\* Constraints are modelled by value (the interval a parameter reports through
\* getConstraint()): constraint objects are shared between copies in the code,
\* and every holder's constraint is read back after every call, so an in-place
\* change of a shared constraint object shows up as an unexplained change on
\* the other holders.
\*
\* Values are E1 codes (module Interval).  Parameter precision p in {0,1,2} is
\* only used with integer pools (pool point k = integer k): positions are then
\* measured on a scale where one pool step is 1000 and one constraint precision
\* step is 1, so "|v - value| > p/2" is "|Rk(v) - Rk(value)| > 500 p".
EXTENDS Interval, TLC

CONSTANTS K,        \* pool size of the design model / code range of the definitional operators
          PIds,     \* design model: parameter object identifiers
          Precs     \* design model: precisions explored

VARIABLES val,      \* val[p]  : value code of live parameter object p   (DOMAIN val = live objects)
          con,      \* con[p]  : interval or None
          prec,     \* prec[p] : precision (0, 1, 2)
          auto,     \* auto[p] : 1 = AutoParameter, 0 = Parameter
          name,     \* name[p] : name index
          last      \* ghost: [op, out, a] of the last call

pvars == <<val, con, prec, auto, name>>
Live  == DOMAIN val

Put(f, o, v) == [x \in DOMAIN f \cup {o} |-> IF x = o THEN v ELSE f[x]]
Abs(x) == IF x < 0 THEN -x ELSE x
Rk(c) == 1000 * (c \div 4) + (CASE c % 4 = 0 -> 0 [] c % 4 = 1 -> 1 [] c % 4 = 2 -> 500 [] OTHER -> 999)
\* the setter ignores a request that is not farther than precision/2 from the current value
NearV(cur, pr, v) == v = cur \/ (pr > 0 /\ Abs(Rk(v) - Rk(cur)) <= 500 * pr)
Near(p, v)    == NearV(val[p], prec[p], v)
Rejects(p, v) == con[p] # None /\ ~Accepts(con[p], v)

CE == "raise:ConstraintException"
Done(op, out, a) == last' = [op |-> op, out |-> out, a |-> a]
Same == UNCHANGED pvars

\* ---------------------------------------------------------------- actions
\* Parameter(name, v, c, precision) / AutoParameter(name, v, c): the initial value goes through the check
Construct(p, n, v, c, pr, au) ==
  /\ p \notin Live
  /\ IF c # None /\ ~Accepts(c, v)
     THEN Same /\ Done("Construct", CE, <<p, v, c>>)
     ELSE /\ val' = Put(val, p, v) /\ con' = Put(con, p, c) /\ prec' = Put(prec, p, pr)
          /\ auto' = Put(auto, p, au) /\ name' = Put(name, p, n)
          /\ Done("Construct", "ok", <<p, v, c>>)

\* copy construction into a fresh object (au: static type of the new object)
Copy(p, q, au) ==
  /\ p \in Live /\ q \notin Live
  /\ val' = Put(val, q, val[p]) /\ con' = Put(con, q, con[p]) /\ prec' = Put(prec, q, prec[p])
  /\ auto' = Put(auto, q, au) /\ name' = Put(name, q, name[p])
  /\ Done("Copy", "ok", <<p, q>>)

\* q = p (operator=): everything but the kind
Assign(p, q) ==
  /\ p \in Live /\ q \in Live
  /\ val' = [val EXCEPT ![q] = val[p]] /\ con' = [con EXCEPT ![q] = con[p]]
  /\ prec' = [prec EXCEPT ![q] = prec[p]] /\ name' = [name EXCEPT ![q] = name[p]]
  /\ UNCHANGED auto
  /\ Done("Assign", "ok", <<p, q>>)

\* Parameter::setValue: check before write.  A request within the precision is
\* ignored by the code; the statement asks a rejected update to raise, so for a
\* request that is both near and rejected either outcome is in the model.
PlainSet(p, v, op, a) ==
  \/ /\ Near(p, v) /\ Same /\ Done(op, "ok", a)
  \/ /\ Rejects(p, v) /\ Same /\ Done(op, CE, a)
  \/ /\ ~Near(p, v) /\ ~Rejects(p, v)
     /\ val' = [val EXCEPT ![p] = v] /\ UNCHANGED <<con, prec, auto, name>>
     /\ Done(op, "ok", a)

\* AutoParameter::setValue: never raises; ends on the nearest accepted value
AutoTarget(p, v) == IF con[p] = None THEN v ELSE AcceptedLimit(con[p], v)
AutoSet(p, v, op, a) ==
  \/ /\ Near(p, v) \/ Near(p, AutoTarget(p, v))
     /\ Same /\ Done(op, "ok", a)
  \/ /\ ~Near(p, v)
     /\ val' = [val EXCEPT ![p] = AutoTarget(p, v)] /\ UNCHANGED <<con, prec, auto, name>>
     /\ Done(op, "ok", a)

\* the virtual setter of object p
SetAny(p, v, op, a) == IF auto[p] = 1 THEN AutoSet(p, v, op, a) ELSE PlainSet(p, v, op, a)
SetValue(p, v) == p \in Live /\ SetAny(p, v, "SetValue", <<p, v>>)

SetCon(p, c, op, a) ==
  IF c # None /\ ~Accepts(c, val[p])
  THEN Same /\ Done(op, CE, a)
  ELSE con' = [con EXCEPT ![p] = c] /\ UNCHANGED <<val, prec, auto, name>> /\ Done(op, "ok", a)
SetConstraint(p, c) == p \in Live /\ SetCon(p, c, "SetConstraint", <<p, c>>)
RemoveConstraint(p) == p \in Live /\ SetCon(p, None, "RemoveConstraint", <<p>>)
SetPrecision(p, pr) ==
  /\ p \in Live
  /\ prec' = [prec EXCEPT ![p] = pr] /\ UNCHANGED <<val, con, auto, name>>
  /\ Done("SetPrecision", "ok", <<p, pr>>)

\* ---------------------------------------------------------------- C01: invariants and action properties
TypeOK == /\ DOMAIN con = Live /\ DOMAIN prec = Live /\ DOMAIN auto = Live /\ DOMAIN name = Live
          /\ \A p \in Live : auto[p] \in {0, 1} /\ prec[p] \in 0..2
\* a constrained parameter never holds a value its constraint rejects
ParamOK == \A p \in Live : con[p] # None => Accepts(con[p], val[p])

POps == {"Construct", "Copy", "Assign", "SetValue", "SetConstraint", "RemoveConstraint", "SetPrecision"}
\* a call that raises leaves every parameter as it was
RaiseKeepsP == [][(last'.op \in POps /\ last'.out # "ok") => UNCHANGED pvars]_<<pvars, last>>
\* an update that the constraint rejects raises the constraint error (plain parameters, request outside the precision)
RejectRaises ==
  [][/\ (last'.op = "SetValue" /\ last'.a[1] \in Live) =>
          LET p == last'.a[1]  v == last'.a[2] IN
          /\ (auto[p] = 0 /\ Rejects(p, v) /\ ~Near(p, v)) => last'.out = CE
          /\ (auto[p] = 0 /\ last'.out = CE) => Rejects(p, v)
          /\ (auto[p] = 0 /\ ~Rejects(p, v) /\ ~Near(p, v)) => val'[p] = v
     /\ (last'.op = "SetConstraint" /\ last'.a[1] \in Live) =>
          LET p == last'.a[1]  c == last'.a[2] IN
          /\ last'.out = CE <=> (c # None /\ ~Accepts(c, val[p]))
          /\ last'.out = "ok" => con'[p] = c
     /\ last'.op = "Construct" =>
          LET p == last'.a[1]  v == last'.a[2]  c == last'.a[3] IN
          /\ last'.out = CE <=> (c # None /\ ~Accepts(c, v))
          /\ last'.out = "ok" => (p \in DOMAIN val' /\ val'[p] = v /\ con'[p] = c)
          /\ last'.out # "ok" => p \notin DOMAIN val'
    ]_<<pvars, last>>
\* the auto-correcting parameter never raises and ends on the accepted value nearest to the request
AutoNearest ==
  [][(last'.op = "SetValue" /\ last'.a[1] \in Live /\ auto[last'.a[1]] = 1) =>
        LET p == last'.a[1]  v == last'.a[2] IN
        /\ last'.out = "ok"
        /\ prec[p] = 0 => val'[p] = (IF con[p] = None THEN v ELSE NearestDef(con[p], v, K))
    ]_<<pvars, last>>

\* ---------------------------------------------------------------- design model (standalone parameters)
InitP == val = <<>> /\ con = <<>> /\ prec = <<>> /\ auto = <<>> /\ name = <<>>
         /\ last = [op |-> "Init", out |-> "ok", a |-> <<>>]
NextP ==
  \/ \E p \in PIds, v \in FinCodes(K), c \in Intervals(K) \cup {None}, pr \in Precs, au \in {0, 1} :
        (au = 1 => pr = 0) /\ Construct(p, 0, v, c, pr, au)
  \/ \E p \in Live, q \in PIds : IF q \in Live THEN Assign(p, q) ELSE \E au \in {0, 1} : Copy(p, q, au)
  \/ \E p \in Live, v \in FinCodes(K) : SetValue(p, v)
  \/ \E p \in Live, c \in Intervals(K) : SetConstraint(p, c)
  \/ \E p \in Live : RemoveConstraint(p)
  \/ \E p \in Live, pr \in Precs : auto[p] = 0 /\ SetPrecision(p, pr)
SpecP == InitP /\ [][NextP]_<<pvars, last>>
\* `last` only labels the transition: states are identified by the parameters (action properties are still
\* evaluated on every transition generated)
ViewP == pvars
=============================================================================
